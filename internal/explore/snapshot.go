package explore

import (
	"fmt"
	"os"
	"regexp"
	"runtime"
	"runtime/debug"
	"sort"
	"strconv"
	"strings"
	"sync"
	"time"

	"verif/internal/oracle"
	"verif/internal/world"
)

// Case is one snapshot handed to the snapshot driver.
type Case struct {
	Label  string
	Build  func(w *world.World) *world.State
	Key    string // reconcile key (default default/web)
	Faults world.FaultPlan
	Lag    int
}

// SnapshotReplay is the replay artefact of a snapshot case.
type SnapshotReplay struct {
	Kind   string          `json:"kind"` // "snapshot"
	Label  string          `json:"label"`
	Key    string          `json:"key"`
	Lag    int             `json:"lag"`
	Faults world.FaultPlan `json:"faults,omitempty"`
	State  *world.State    `json:"state"`
	Calls  []string        `json:"calls"`
	Err    string          `json:"err,omitempty"`
	Panic  string          `json:"panic,omitempty"`
	Stack  string          `json:"stack,omitempty"`
	Viols  []string        `json:"violations"`
}

func Workers() int {
	n := runtime.NumCPU()
	if n > 16 {
		n = 16
	}
	if n < 1 {
		n = 1
	}
	return n
}

// Deadline returns the internal deadline of a driver for the current tier.
func Deadline(quick, thorough time.Duration) time.Time {
	if Tier() == "thorough" {
		return time.Now().Add(thorough)
	}
	// the quick grids are sized to finish well inside `quick` on an idle 16-core machine; the deadline is a safety
	// net, so it gets slack (a loaded machine should finish the enumeration rather than report a partial one)
	slack := 3.0
	if v, err := strconv.ParseFloat(os.Getenv("VERIF_QUICK_SLACK"), 64); err == nil && v > 0 {
		slack = v
	}
	return time.Now().Add(time.Duration(float64(quick) * slack))
}

// OutcomeSig is a canonical description of what a reconcile did.
func OutcomeSig(rec *world.Rec) string {
	var w []string
	for _, c := range rec.Calls {
		if c.IsWrite() {
			s := c.Verb + " " + c.Resource
			if c.Sub != "" {
				s += "/" + c.Sub
			}
			if !c.OK() {
				s += "!" + c.Err
			}
			w = append(w, s)
		}
	}
	sort.Strings(w)
	s := strings.Join(w, ",")
	switch {
	case rec.Panic != nil:
		s += " PANIC"
	case rec.Crash:
		s += " CRASH"
	case rec.Err != nil:
		s += " ERR"
	}
	if s == "" {
		s = "(no write)"
	}
	return s
}

func CallStrings(rec *world.Rec) []string {
	var out []string
	for _, c := range rec.Calls {
		out = append(out, c.String())
	}
	return out
}

func violStrings(vs []oracle.Violation) []string {
	var out []string
	for _, v := range vs {
		out = append(out, v.String())
	}
	sort.Strings(out)
	return out
}

// JudgeFn runs the monitors of a check on one reconcile.
type JudgeFn func(v *oracle.View) []oracle.Violation

// RunSnapshots executes every case produced by gen: one real reconcile each,
// judged by judge. gen must call emit for each case and stop when emit
// returns false (deadline).
func RunSnapshots(rep *Report, deadline time.Time, gen func(emit func(Case) bool), judge JudgeFn) {
	if os.Getenv("VERIF_GOGC") == "" {
		debug.SetGCPercent(400) // small live heap, high allocation rate
	}
	ch := make(chan Case, 256)
	var wg sync.WaitGroup
	for i := 0; i < Workers(); i++ {
		wg.Add(1)
		go func() {
			defer wg.Done()
			w := world.New()
			for c := range ch {
				runCase(rep, w, c, judge)
			}
		}()
	}
	n := 0
	gen(func(c Case) bool {
		n++
		if n%64 == 0 && time.Now().After(deadline) {
			rep.Exhaustive = false
			rep.Cap = fmt.Sprintf("deadline reached after %d cases were handed out", n)
			return false
		}
		ch <- c
		return true
	})
	close(ch)
	wg.Wait()
}

// RunCase executes one snapshot case on w.
func RunCase(rep *Report, w *world.World, c Case, judge JudgeFn) { runCase(rep, w, c, judge) }

func runCase(rep *Report, w *world.World, c Case, judge JudgeFn) {
	defer func() {
		if r := recover(); r != nil {
			if he, ok := r.(world.HarnessError); ok {
				fmt.Fprintf(os.Stderr, "HARNESS ERROR in case %s: %s\n", c.Label, he.Msg)
				os.Exit(2)
			}
			panic(r)
		}
	}()
	key := c.Key
	if key == "" {
		key = world.NS + "/web"
	}
	st := c.Build(w)
	w.Lag = c.Lag
	w.Load(st)
	rec := w.Reconcile(key, c.Faults)
	view := oracle.NewView(rec)
	vs := judge(view)
	if len(rec.CacheMutated) > 0 {
		vs = append(vs, oracle.Violation{Prop: rep.Prop, Rule: "cache-mutated", Msg: fmt.Sprintf("reconcile modified cached objects in place: %v", rec.CacheMutated)})
	}
	sig := OutcomeSig(rec)
	rep.Count(st.Key(), len(rec.Writes()) > 0 || rec.Err != nil || rec.Panic != nil, sig)
	if rep.WantSample() {
		rep.Sample(map[string]interface{}{"case": c.Label, "calls": CallStrings(rec), "err": errStr(rec.Err)})
	}
	if len(vs) == 0 {
		return
	}
	// reproduce twice more before believing it
	want := violStrings(vs)
	for i := 0; i < 2; i++ {
		w.Load(st)
		rec2 := w.Reconcile(key, c.Faults)
		got := violStrings(judge(oracle.NewView(rec2)))
		if len(rec2.CacheMutated) > 0 {
			got = append(got, oracle.Violation{Prop: rep.Prop, Rule: "cache-mutated", Msg: fmt.Sprintf("reconcile modified cached objects in place: %v", rec2.CacheMutated)}.String())
			sort.Strings(got)
		}
		if strings.Join(got, "\n") != strings.Join(want, "\n") {
			// the harness is deterministic (checked on the unchanged tree); what differs is the code under
			// test, e.g. through Go's map iteration order. The violation was observed on the real code, so it
			// is reported, marked as not reproducing on every execution of the same snapshot.
			for i := range vs {
				vs[i].Msg += " [nondeterministic: a re-execution of the same snapshot behaved differently]"
			}
			break
		}
	}
	for _, v := range vs {
		v := v
		rep.Violation(v.Prop, v.Rule, v.Msg, func() interface{} {
			r := SnapshotReplay{Kind: "snapshot", Label: c.Label, Key: key, Lag: c.Lag, Faults: c.Faults, State: st, Calls: CallStrings(rec), Err: errStr(rec.Err), Viols: want, Stack: rec.Stack}
			if rec.Panic != nil {
				r.Panic = fmt.Sprint(rec.Panic)
			}
			return r
		})
	}
}

func errStr(e error) string {
	if e == nil {
		return ""
	}
	return e.Error()
}

var siteRe = regexp.MustCompile(`/(repo|advanced-statefulset)/((?:pkg|client)/[^\s:]+\.go):(\d+)`)

// PanicSite returns the first frame of the stack that lies in the repository
// (file:function granularity is enough to tell panic classes apart).
func PanicSite(stack string) string {
	lines := strings.Split(stack, "\n")
	for i, l := range lines {
		if m := siteRe.FindStringSubmatch(l); m != nil && !strings.Contains(l, "verif_hooks") {
			fn := ""
			if i > 0 {
				fn = strings.TrimSpace(lines[i-1])
				if j := strings.LastIndex(fn, "("); j > 0 {
					fn = fn[:j]
				}
				if j := strings.LastIndex(fn, "/"); j >= 0 {
					fn = fn[j+1:]
				}
			}
			return m[2] + ":" + m[3] + ":" + fn
		}
	}
	return "unknown"
}
