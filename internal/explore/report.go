// Package explore holds the exhaustive drivers and the reporting shared by
// all checks (evidence files, replay artefacts, known findings).
package explore

import (
	"crypto/sha256"
	"encoding/json"
	"fmt"
	"os"
	"path/filepath"
	"regexp"
	"sort"
	"strconv"
	"sync"
	"time"
)

// Root is /verif (the checks run with cwd=/verif; VERIF_ROOT overrides).
func Root() string {
	if r := os.Getenv("VERIF_ROOT"); r != "" {
		return r
	}
	wd, _ := os.Getwd()
	return wd
}

func Tier() string {
	if os.Getenv("VERIF_TIER") == "thorough" {
		return "thorough"
	}
	return "quick"
}

func SeedValue() int64 {
	s, _ := strconv.ParseInt(os.Getenv("VERIF_SEED"), 10, 64)
	return s
}

// Found is one violation with its replay artefact.
type Found struct {
	Prop   string
	Rule   string
	Msg    string
	Replay interface{} // serialisable replay description
	path   string
	known  string
}

// Known is one entry of known_findings.json.
type Known struct {
	Property string `json:"property"`
	Status   string `json:"status"` // "known" | "fixed"
	Rule     string `json:"rule"`   // exact rule id
	Match    string `json:"match"`  // regexp on the message ("" = any)
	What     string `json:"what"`
	Commit   string `json:"commit,omitempty"`
	Line     string `json:"line,omitempty"`
}

func LoadKnown() []Known {
	b, err := os.ReadFile(filepath.Join(Root(), "known_findings.json"))
	if err != nil {
		return nil
	}
	var f struct {
		Findings []Known `json:"findings"`
	}
	if err := json.Unmarshal(b, &f); err != nil {
		fmt.Fprintln(os.Stderr, "known_findings.json unreadable:", err)
		os.Exit(2)
	}
	return f.Findings
}

// Report accumulates what a check covered and found.
type Report struct {
	Prop        string
	Level       string // evidence level
	Rule        string
	Assumptions []string
	Exhaustive  bool
	Cap         string
	Extra       map[string]interface{}

	mu          sync.Mutex
	start       time.Time
	Evaluations int64
	States      int64
	Transitions int64
	Validated   int64
	distinct    map[[16]byte]struct{}
	outcomes    map[string]int64
	samples     []interface{}
	found       map[string]*Found // by rule|msg class
	foundOrder  []string
	perRule     map[string]int
	total       int
}

func NewReport(prop, level string) *Report {
	return &Report{Prop: prop, Level: level, Exhaustive: true, start: time.Now(),
		distinct: map[[16]byte]struct{}{}, outcomes: map[string]int64{}, found: map[string]*Found{},
		perRule: map[string]int{}, Extra: map[string]interface{}{}}
}

// Count records one evaluated case; key identifies the case (for the
// distinct count), nontrivial says whether it counts as non-trivial, outcome
// is a short label for the outcome histogram.
func (r *Report) Count(key [16]byte, nontrivial bool, outcome string) {
	r.mu.Lock()
	r.Evaluations++
	if nontrivial {
		r.distinct[key] = struct{}{}
	}
	if outcome != "" {
		r.outcomes[outcome]++
	}
	r.mu.Unlock()
}

// Outcome adds one observation to the outcome histogram.
func (r *Report) Outcome(o string) {
	r.mu.Lock()
	r.outcomes[o]++
	r.mu.Unlock()
}

func (r *Report) AddStates(n, t int64) {
	r.mu.Lock()
	r.States += n
	r.Transitions += t
	r.mu.Unlock()
}

func (r *Report) Sample(s interface{}) {
	r.mu.Lock()
	if len(r.samples) < 8 {
		r.samples = append(r.samples, s)
	}
	r.mu.Unlock()
}

// SampleEvery keeps case number n as a sample when it falls on a sparse grid.
func (r *Report) WantSample() bool {
	r.mu.Lock()
	defer r.mu.Unlock()
	n := r.Evaluations
	return len(r.samples) < 8 && (n < 2 || n%9973 == 0)
}

var digits = regexp.MustCompile(`[0-9]+`)

// Violation records a violation; at most 3 replays are kept per rule.
func (r *Report) Violation(prop, rule, msg string, replay func() interface{}) {
	r.mu.Lock()
	defer r.mu.Unlock()
	r.total++
	class := prop + "|" + rule + "|" + digits.ReplaceAllString(msg, "N")
	if _, ok := r.found[class]; ok {
		return
	}
	if r.perRule[prop+"|"+rule] >= 3 {
		return
	}
	r.perRule[prop+"|"+rule]++
	f := &Found{Prop: prop, Rule: rule, Msg: msg}
	if replay != nil {
		f.Replay = replay()
	}
	r.found[class] = f
	r.foundOrder = append(r.foundOrder, class)
}

func (r *Report) NumViolations() int {
	r.mu.Lock()
	defer r.mu.Unlock()
	return r.total
}

// Finish writes replays and the evidence file, prints KNOWN-FINDING /
// VIOLATION lines and returns the process exit code.
func (r *Report) Finish() int {
	r.mu.Lock()
	defer r.mu.Unlock()
	root := Root()
	known := LoadKnown()
	os.MkdirAll(filepath.Join(root, "replays"), 0o755)
	os.MkdirAll(filepath.Join(root, "evidence"), 0o755)
	exit := 0
	nKnown, nNew := 0, 0
	sort.Strings(r.foundOrder)
	for _, class := range r.foundOrder {
		f := r.found[class]
		for _, k := range known {
			if k.Status != "known" || k.Property != f.Prop || k.Rule != f.Rule {
				continue
			}
			if k.Match != "" {
				if ok, _ := regexp.MatchString(k.Match, f.Msg); !ok {
					continue
				}
			}
			f.known = k.What
		}
		// compact on purpose: indenting would rewrite the raw bytes of revision data
		body, _ := json.Marshal(map[string]interface{}{"property": f.Prop, "rule": f.Rule, "message": f.Msg, "replay": f.Replay})
		h := sha256.Sum256(body)
		f.path = filepath.Join(root, "replays", fmt.Sprintf("%s-%x.json", f.Prop, h[:5]))
		os.WriteFile(f.path, body, 0o644)
		if f.known != "" {
			nKnown++
			fmt.Printf("KNOWN-FINDING: property=%s %s [%s: %s] replay=%s\n", f.Prop, f.known, f.Rule, f.Msg, f.path)
			continue
		}
		nNew++
		exit = 1
		fmt.Printf("VIOLATION property=%s replay=%s\n", f.Prop, f.path)
		fmt.Printf("  rule=%s %s\n", f.Rule, f.Msg)
	}
	wall := time.Since(r.start).Seconds()
	cov := map[string]interface{}{
		"evaluations":         r.Evaluations,
		"distinct_nontrivial": len(r.distinct),
		"rule":                r.Rule,
		"samples":             r.samples,
		"exhaustive":          r.Exhaustive,
		"outcome_histogram":   topOutcomes(r.outcomes, 40),
		"distinct_outcomes":   len(r.outcomes),
		"violation_reports":   r.total,
		"known_findings":      nKnown,
	}
	if r.States > 0 || r.Level == "model_checking" {
		cov["states"] = r.States
		cov["transitions"] = r.Transitions
		cov["traces_validated_against_impl"] = r.Validated
	}
	if r.Cap != "" {
		cov["cap_hit"] = r.Cap
	}
	for k, v := range r.Extra {
		cov[k] = v
	}
	if len(r.samples) == 0 {
		cov["samples"] = []interface{}{"(no case was generated)"}
	}
	ev := map[string]interface{}{
		"property_id": r.Prop,
		"tier":        Tier(),
		"seed":        SeedValue(),
		"level":       r.Level,
		"coverage":    cov,
		"assumptions": r.Assumptions,
		"wall_s":      wall,
		"violations":  nNew,
	}
	b, _ := json.MarshalIndent(ev, "", " ")
	if err := os.WriteFile(filepath.Join(root, "evidence", r.Prop+".json"), b, 0o644); err != nil {
		fmt.Fprintln(os.Stderr, "cannot write evidence:", err)
		return 2
	}
	fmt.Printf("%s tier=%s evaluations=%d distinct_nontrivial=%d states=%d transitions=%d distinct_outcomes=%d exhaustive=%v violations(new)=%d known=%d wall=%.1fs\n",
		r.Prop, Tier(), r.Evaluations, len(r.distinct), r.States, r.Transitions, len(r.outcomes), r.Exhaustive, nNew, nKnown, wall)
	return exit
}

func topOutcomes(m map[string]int64, n int) map[string]int64 {
	type kv struct {
		k string
		v int64
	}
	var l []kv
	for k, v := range m {
		l = append(l, kv{k, v})
	}
	sort.Slice(l, func(i, j int) bool { return l[i].v > l[j].v || l[i].v == l[j].v && l[i].k < l[j].k })
	out := map[string]int64{}
	for i, e := range l {
		if i >= n {
			break
		}
		out[e.k] = e.v
	}
	return out
}

// MergeInto moves the violations of a sub-report into dst.
func (r *Report) MergeInto(dst *Report) {
	r.mu.Lock()
	defer r.mu.Unlock()
	dst.mu.Lock()
	defer dst.mu.Unlock()
	dst.total += r.total
	for k, v := range r.outcomes {
		dst.outcomes[k] += v
	}
	for _, class := range r.foundOrder {
		f := r.found[class]
		if _, ok := dst.found[class]; ok {
			continue
		}
		if dst.perRule[f.Prop+"|"+f.Rule] >= 3 {
			continue
		}
		dst.perRule[f.Prop+"|"+f.Rule]++
		dst.found[class] = f
		dst.foundOrder = append(dst.foundOrder, class)
	}
}
