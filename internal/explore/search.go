package explore

import (
	"fmt"
	"os"
	"runtime"
	"runtime/debug"
	"sort"
	"strconv"
	"strings"
	"sync"
	"time"

	"verif/internal/oracle"
	"verif/internal/world"
)

// Seed is a start state of the search.
type Seed struct {
	Label string
	State *world.State
}

// SearchCfg configures the deviation-bounded explicit-state search.
type SearchCfg struct {
	Prop        string
	Key         string // reconcile key
	Lag         int
	D           int                           // deviation bound
	Deviations  func(s *world.State) []string // environment deviations enabled in s
	FaultKinds  []string                      // single-fault deviations of the reconcile (nil: none)
	FaultOn     func(c *world.Call) bool      // which calls get faults (nil: all)
	Judge       JudgeFn                       // run on every reconcile edge
	Goal        func(s *world.State) string   // "" if the goal predicate holds
	Excuse      func(s *world.State) string   // non-empty: a stuck bottom state is outside the premise
	Progress    func(s *world.State) []string // environment progress transitions (default world.EnvProgress)
	NoReconcile func(s *world.State) bool     // optional: states in which the reconcile is not run
	Deadline    time.Time
	MaxStates   int
	World       *world.World                                                           // optional: reuse this world (with Workers=1) instead of building one
	Workers     int                                                                    // parallel expansion workers (0: all cores); 1 when the caller parallelises over searches
	OnEdge      func(from *world.State, label string, rec *world.Rec, to *world.State) // optional observer
	// OnFault judges a faulted reconcile against the fault-free one from the same state.
	OnFault func(from *world.State, label string, base, faulted *world.Rec) []oracle.Violation
	// KeepDevEdges records deviation edges on the nodes (needed for recovery-equivalence checks).
	KeepDevEdges bool
	// RelabelAfterDeviation: monitor reports on edges reached after >=1 deviation are attributed
	// to Prop with rule "<orig prop>/<rule>"; reports on deviation-free edges are dropped.
	RelabelAfterDeviation bool
}

// Node is one explored state.
type Node struct {
	Depth  int8
	Seed   int32 // index of the seed if this is a seed state, else -1
	Parent world.Key
	Via    string
	Succ   []world.Key // progress successors
	Dev    []DevEdge   // deviation edges (only if KeepDevEdges)
	Quiet  bool        // its reconcile is a write-free self-loop
	// Settled: its reconcile reports success and leaves the state as it is (nothing is scheduled to retry it), whether
	// or not it attempted writes that were refused
	Settled bool
	Goal    string // "" if the goal holds
	Excuse  string
	Bottom  int32   // id of the bottom SCC this node forms (>=0) else -1
	Reach   []int32 // ids of bottom SCCs reachable by progress transitions
	done    bool
}

// DevEdge is a deviation edge.
type DevEdge struct {
	Label string
	To    world.Key
}

// Graph is the explored progress graph.
type Graph struct {
	Nodes       map[world.Key]*Node
	Seeds       []Seed
	Cfg         SearchCfg
	Reconciles  int64
	Transitions int64
	Bottoms     []world.Key // representative of each bottom SCC
	BottomSize  []int
	Complete    bool
}

// PathReplay is the replay artefact of a path through the graph.
type PathReplay struct {
	Kind        string       `json:"kind"` // "path"
	Property    string       `json:"property_checked"`
	Key         string       `json:"key"`
	Lag         int          `json:"lag"`
	SeedLabel   string       `json:"seed_label"`
	Seed        *world.State `json:"seed"`
	Transitions []string     `json:"transitions"`
	Note        string       `json:"note,omitempty"`
	LastCalls   []string     `json:"last_calls,omitempty"`
}

type expansion struct {
	from    world.Key
	prog    []succ
	dev     []succ
	quiet   bool
	settled bool
	goal    string
	excuse  string
	nrec    int64
}

type succ struct {
	label  string
	state  *world.State
	key    world.Key
	parent *world.State // set for lazily kept environment deviations
}

func faultLabel(id, kind string) string { return "reconcile!" + id + "=" + kind }

// ParseReconcileLabel returns the fault plan encoded in a reconcile label.
func ParseReconcileLabel(label string) (world.FaultPlan, bool) {
	if label == "reconcile" {
		return nil, true
	}
	if !strings.HasPrefix(label, "reconcile!") {
		return nil, false
	}
	rest := strings.TrimPrefix(label, "reconcile!")
	i := strings.LastIndex(rest, "=")
	if i < 0 {
		return nil, false
	}
	return world.FaultPlan{rest[:i]: rest[i+1:]}, true
}

// faultsApplicable lists the fault kinds that make sense for a call.
func faultsApplicable(c *world.Call, kinds []string) []string {
	var out []string
	for _, k := range kinds {
		switch k {
		case world.FErr500, world.FCrashBefore, world.FCrashAfter:
			out = append(out, k)
		case world.FTimeout:
			if c.IsWrite() {
				out = append(out, k)
			}
		case world.FConflict, world.FConflictFresh:
			if c.Verb == "update" {
				out = append(out, k)
			}
		case world.FConflictPause:
			if c.Verb == "update" && c.Resource == "statefulsets" {
				out = append(out, k)
			}
		case world.FGone:
			if c.Verb == "update" || c.Verb == "patch" || c.Verb == "delete" || c.Verb == "get" {
				out = append(out, k)
			}
		case world.FExists:
			if c.Verb == "create" {
				out = append(out, k)
			}
		case world.FExistsOther:
			if c.Verb == "create" && c.Resource == "statefulsets" {
				out = append(out, k)
			}
		}
	}
	return out
}

// Search explores the closure of the seeds under progress transitions and up
// to D deviations, running the monitors on every reconcile edge.
func Search(rep *Report, cfg SearchCfg, seeds []Seed) *Graph {
	if os.Getenv("VERIF_GOGC") == "" {
		debug.SetGCPercent(100) // large live heap
	}
	g := &Graph{Nodes: map[world.Key]*Node{}, Seeds: seeds, Cfg: cfg, Complete: true}
	if cfg.Key == "" {
		cfg.Key = world.NS + "/web"
		g.Cfg.Key = cfg.Key
	}
	if cfg.Progress == nil {
		cfg.Progress = world.EnvProgress
	}
	g.Cfg = cfg
	nw := Workers()
	if cfg.Workers > 0 {
		nw = cfg.Workers
	}
	worlds := make([]*world.World, nw)
	for i := range worlds {
		if cfg.World != nil && i == 0 {
			worlds[i] = cfg.World
			continue
		}
		worlds[i] = world.New()
	}
	// a queued state; deviation successors produced by an environment edit are kept as (parent, label) and
	// materialised when they are expanded: thousands of siblings then share one parent instead of holding a
	// full state each (the first thorough run of C02 died at 46 GB)
	type item struct {
		st     *world.State
		key    world.Key
		parent *world.State
		label  string
	}
	var frontier []item
	for i, s := range seeds {
		k := s.State.Key()
		if _, ok := g.Nodes[k]; ok {
			continue
		}
		g.Nodes[k] = &Node{Seed: int32(i), Bottom: -1}
		frontier = append(frontier, item{st: s.State, key: k})
	}
	var nextLayer []item
	for depth := 0; depth <= cfg.D; depth++ {
		for len(frontier) > 0 {
			if time.Now().After(cfg.Deadline) || (cfg.MaxStates > 0 && len(g.Nodes) > cfg.MaxStates) || memoryExhausted() {
				g.Complete = false
				rep.Exhaustive = false
				rep.Cap = fmt.Sprintf("search stopped at deviation depth %d with %d states discovered and %d unexpanded (deadline, state cap or memory guard); convergence verdicts are given only for fully expanded closures", depth, len(g.Nodes), len(frontier))
				break
			}
			{ // a node may have been queued twice (deviation successor re-found by progress)
				seen := map[world.Key]bool{}
				uniq := frontier[:0]
				for _, it := range frontier {
					if !seen[it.key] && !g.Nodes[it.key].done {
						seen[it.key] = true
						uniq = append(uniq, it)
					}
				}
				frontier = uniq
				if len(frontier) == 0 {
					break
				}
			}
			// expand the frontier in parallel, at most a batch at a time so that the memory guard gets a say
			var rest []item
			if len(frontier) > 32768 {
				rest = append(rest, frontier[32768:]...)
				frontier = frontier[:32768]
			}
			results := make([]*expansion, len(frontier))
			var wg sync.WaitGroup
			chunk := (len(frontier) + nw - 1) / nw
			if chunk > 512 {
				chunk = 512
			}
			idx := make(chan [2]int, len(frontier)/chunk+1)
			for lo := 0; lo < len(frontier); lo += chunk {
				hi := lo + chunk
				if hi > len(frontier) {
					hi = len(frontier)
				}
				idx <- [2]int{lo, hi}
			}
			close(idx)
			for wi := 0; wi < nw; wi++ {
				wg.Add(1)
				go func(w *world.World) {
					defer wg.Done()
					for r := range idx {
						for i := r[0]; i < r[1]; i++ {
							if frontier[i].st == nil {
								n := frontier[i].parent.Clone()
								if err := world.Apply(n, frontier[i].label, cfg.Lag); err != nil {
									panic(world.HarnessError{Msg: "materialising deviation " + frontier[i].label + ": " + err.Error()})
								}
								frontier[i].st, frontier[i].parent = n, nil
							}
							results[i] = g.expand(rep, w, frontier[i].st, frontier[i].key, depth < cfg.D)
						}
					}
				}(worlds[wi])
			}
			wg.Wait()
			var next []item
			for _, e := range results {
				n := g.Nodes[e.from]
				n.Quiet, n.Goal, n.Excuse, n.done = e.quiet, e.goal, e.excuse, true
				n.Settled = e.settled
				g.Reconciles += e.nrec
				for _, s := range e.prog {
					g.Transitions++
					n.Succ = append(n.Succ, s.key)
					if old, ok := g.Nodes[s.key]; !ok {
						g.Nodes[s.key] = &Node{Depth: int8(depth), Seed: -1, Parent: e.from, Via: s.label, Bottom: -1}
						next = append(next, item{st: s.state, key: s.key})
					} else if !old.done && int(old.Depth) > depth {
						// first seen as a deviation successor, but reachable with fewer deviations
						old.Depth, old.Parent, old.Via = int8(depth), e.from, s.label
						next = append(next, item{st: s.state, key: s.key})
					}
				}
				for _, s := range e.dev {
					g.Transitions++
					if cfg.KeepDevEdges {
						n.Dev = append(n.Dev, DevEdge{s.label, s.key})
					}
					if _, ok := g.Nodes[s.key]; !ok {
						g.Nodes[s.key] = &Node{Depth: int8(depth + 1), Seed: -1, Parent: e.from, Via: s.label, Bottom: -1}
						nextLayer = append(nextLayer, item{st: s.state, key: s.key, parent: s.parent, label: s.label})
					}
				}
			}
			frontier = append(rest, next...)
		}
		if !g.Complete {
			break
		}
		frontier = frontier[:0]
		for _, it := range nextLayer {
			if n := g.Nodes[it.key]; !n.done && int(n.Depth) == depth+1 {
				frontier = append(frontier, it)
			}
		}
		nextLayer = nil
	}
	rep.AddStates(int64(len(g.Nodes)), g.Transitions)
	return g
}

func (g *Graph) expand(rep *Report, w *world.World, st *world.State, key world.Key, deviate bool) *expansion {
	cfg := g.Cfg
	defer func() {
		if r := recover(); r != nil {
			if he, ok := r.(world.HarnessError); ok {
				fmt.Fprintf(os.Stderr, "HARNESS ERROR: %s\nstate:\n%s", he.Msg, st.Describe())
				os.Exit(2)
			}
			panic(r)
		}
	}()
	e := &expansion{from: key}
	if cfg.Goal != nil {
		e.goal = cfg.Goal(st)
	}
	if cfg.Excuse != nil {
		e.excuse = cfg.Excuse(st)
	}
	w.Lag = cfg.Lag
	var rec *world.Rec
	if cfg.NoReconcile == nil || !cfg.NoReconcile(st) {
		w.Load(st)
		rec = w.Reconcile(cfg.Key, nil)
		e.nrec++
		g.judge(rep, key, "reconcile", rec, depthOf(g, key))
		k := rec.After.Key()
		e.quiet = len(rec.Writes()) == 0 && k == key
		e.settled = rec.Err == nil && rec.Panic == nil && !rec.Crash && k == key
		e.prog = append(e.prog, succ{label: "reconcile", state: rec.After, key: k})
		if cfg.OnEdge != nil {
			cfg.OnEdge(st, "reconcile", rec, rec.After)
		}
	} else {
		e.quiet = true
	}
	for _, l := range cfg.Progress(st) {
		n := st.Clone()
		if err := world.Apply(n, l, cfg.Lag); err != nil {
			panic(world.HarnessError{Msg: "progress transition " + l + ": " + err.Error()})
		}
		e.prog = append(e.prog, succ{label: l, state: n, key: n.Key()})
	}
	if !deviate {
		return e
	}
	if cfg.Deviations != nil {
		for _, l := range cfg.Deviations(st) {
			n := st.Clone()
			if err := world.Apply(n, l, cfg.Lag); err != nil {
				panic(world.HarnessError{Msg: "deviation " + l + ": " + err.Error()})
			}
			e.dev = append(e.dev, succ{label: l, key: n.Key(), parent: st})
		}
	}
	if rec != nil && len(cfg.FaultKinds) > 0 {
		for _, c := range rec.Calls {
			if cfg.FaultOn != nil && !cfg.FaultOn(c) {
				continue
			}
			for _, kind := range faultsApplicable(c, cfg.FaultKinds) {
				label := faultLabel(c.ID, kind)
				w.Load(st)
				fr := w.Reconcile(cfg.Key, world.FaultPlan{c.ID: kind})
				e.nrec++
				g.judge(rep, key, label, fr, depthOf(g, key)+1)
				if cfg.OnFault != nil {
					for _, v := range cfg.OnFault(st, label, rec, fr) {
						v := v
						rep.Violation(v.Prop, v.Rule, v.Msg, func() interface{} {
							p := g.PathTo(key)
							p.Transitions = append(p.Transitions, label)
							p.LastCalls = CallStrings(fr)
							p.Note = v.String()
							return p
						})
					}
				}
				if cfg.OnEdge != nil {
					cfg.OnEdge(st, label, fr, fr.After)
				}
				e.dev = append(e.dev, succ{label: label, state: fr.After, key: fr.After.Key()})
			}
		}
	}
	return e
}

func depthOf(g *Graph, k world.Key) int {
	if n := g.Nodes[k]; n != nil {
		return int(n.Depth)
	}
	return 0
}

func (g *Graph) judge(rep *Report, from world.Key, label string, rec *world.Rec, devs int) {
	rep.Outcome(OutcomeSig(rec))
	var vs []oracle.Violation
	if g.Cfg.Judge != nil {
		vs = g.Cfg.Judge(oracle.NewView(rec))
	}
	if g.Cfg.RelabelAfterDeviation {
		if devs == 0 {
			vs = nil
		}
		for i := range vs {
			vs[i].Rule = vs[i].Prop + "/" + vs[i].Rule
			vs[i].Prop = g.Cfg.Prop
		}
	}
	if rec.Panic != nil {
		vs = append(vs, oracle.Violation{Prop: g.Cfg.Prop, Rule: "panic@" + PanicSite(rec.Stack), Msg: fmt.Sprintf("reconcile panicked: %v", rec.Panic)})
	}
	if len(rec.CacheMutated) > 0 {
		vs = append(vs, oracle.Violation{Prop: g.Cfg.Prop, Rule: "cache-mutated", Msg: fmt.Sprintf("reconcile modified cached objects in place: %v", rec.CacheMutated)})
	}
	for _, v := range vs {
		v := v
		rep.Violation(v.Prop, v.Rule, v.Msg, func() interface{} {
			p := g.PathTo(from)
			p.Transitions = append(p.Transitions, label)
			p.LastCalls = CallStrings(rec)
			p.Note = v.String()
			return p
		})
	}
}

// PathTo reconstructs the transition labels from a seed to the node.
// (Called under the report lock from worker goroutines only for nodes whose
// ancestors were inserted in earlier rounds, so the map is not being written.)
func (g *Graph) PathTo(k world.Key) *PathReplay {
	var labels []string
	cur := k
	for {
		n := g.Nodes[cur]
		if n == nil {
			return &PathReplay{Kind: "path", Note: "path reconstruction failed"}
		}
		if n.Seed >= 0 {
			sd := g.Seeds[n.Seed]
			for i, j := 0, len(labels)-1; i < j; i, j = i+1, j-1 {
				labels[i], labels[j] = labels[j], labels[i]
			}
			return &PathReplay{Kind: "path", Property: g.Cfg.Prop, Key: g.Cfg.Key, Lag: g.Cfg.Lag, SeedLabel: sd.Label, Seed: sd.State, Transitions: labels}
		}
		labels = append(labels, n.Via)
		cur = n.Parent
	}
}

// Analyse computes the SCCs of the progress graph, marks bottom SCCs and the
// set of bottom SCCs reachable from every node.
func (g *Graph) Analyse() {
	// iterative Tarjan
	index := map[world.Key]int32{}
	low := map[world.Key]int32{}
	onStack := map[world.Key]bool{}
	comp := map[world.Key]int32{}
	var stack []world.Key
	var comps [][]world.Key
	var next int32
	type frame struct {
		k world.Key
		i int
	}
	keys := make([]world.Key, 0, len(g.Nodes))
	for k := range g.Nodes {
		keys = append(keys, k)
	}
	sort.Slice(keys, func(i, j int) bool { return string(keys[i][:]) < string(keys[j][:]) })
	for _, root := range keys {
		if _, ok := index[root]; ok {
			continue
		}
		call := []frame{{root, 0}}
		index[root], low[root] = next, next
		next++
		stack = append(stack, root)
		onStack[root] = true
		for len(call) > 0 {
			f := &call[len(call)-1]
			n := g.Nodes[f.k]
			if f.i < len(n.Succ) {
				s := n.Succ[f.i]
				f.i++
				if _, ok := g.Nodes[s]; !ok {
					continue
				}
				if _, seen := index[s]; !seen {
					index[s], low[s] = next, next
					next++
					stack = append(stack, s)
					onStack[s] = true
					call = append(call, frame{s, 0})
				} else if onStack[s] && index[s] < low[f.k] {
					low[f.k] = index[s]
				}
				continue
			}
			if low[f.k] == index[f.k] {
				var c []world.Key
				for {
					x := stack[len(stack)-1]
					stack = stack[:len(stack)-1]
					onStack[x] = false
					comp[x] = int32(len(comps))
					c = append(c, x)
					if x == f.k {
						break
					}
				}
				comps = append(comps, c)
			}
			k := f.k
			call = call[:len(call)-1]
			if len(call) > 0 {
				p := call[len(call)-1].k
				if low[k] < low[p] {
					low[p] = low[k]
				}
			}
		}
	}
	// Tarjan emits components in reverse topological order: successors first.
	reach := make([][]int32, len(comps))
	for ci, c := range comps {
		bottom := true
		set := map[int32]bool{}
		expanded := true
		for _, k := range c {
			n := g.Nodes[k]
			if !n.done {
				expanded = false
			}
			for _, s := range n.Succ {
				if sc, ok := comp[s]; ok && sc != int32(ci) {
					bottom = false
					for _, b := range reach[sc] {
						set[b] = true
					}
				}
			}
		}
		if bottom && expanded {
			id := int32(len(g.Bottoms))
			sort.Slice(c, func(i, j int) bool { return string(c[i][:]) < string(c[j][:]) })
			g.Bottoms = append(g.Bottoms, c[0])
			g.BottomSize = append(g.BottomSize, len(c))
			for _, k := range c {
				g.Nodes[k].Bottom = id
			}
			set[id] = true
		}
		var l []int32
		for b := range set {
			l = append(l, b)
		}
		sort.Slice(l, func(i, j int) bool { return l[i] < l[j] })
		reach[ci] = l
		for _, k := range c {
			g.Nodes[k].Reach = l
		}
	}
}

// CheckConvergence reports every bottom SCC that is not a quiescent goal state.
func (g *Graph) CheckConvergence(rep *Report) (bottoms, excused int) {
	for id, k := range g.Bottoms {
		n := g.Nodes[k]
		size := g.BottomSize[id]
		bottoms++
		switch {
		case size > 1:
			if n.Excuse != "" {
				excused++
				continue
			}
			rep.Violation(g.Cfg.Prop, "livelock", fmt.Sprintf("a cycle of %d states is never left: the system keeps acting without converging", size), func() interface{} {
				p := g.PathTo(k)
				p.Note = fmt.Sprintf("bottom SCC of %d states; first state reached by this path", size)
				return p
			})
		case !n.Quiet || n.Goal != "":
			if n.Excuse != "" {
				excused++
				continue
			}
			rule, why := "stuck-short-of-goal", n.Goal
			if n.Goal == "" {
				rule, why = "never-quiet", "goal reached but the reconcile keeps writing"
			} else if !n.Quiet {
				why += " (and the reconcile is not quiet)"
			}
			rep.Violation(g.Cfg.Prop, rule, "a state is reached from which no progress transition leads anywhere else, but "+why, func() interface{} {
				p := g.PathTo(k)
				p.Transitions = append(p.Transitions, "reconcile")
				p.Note = "bottom state: " + why
				return p
			})
		}
	}
	return
}

// CheckRecovery verifies, for every recorded deviation edge s -> t, that the
// bottom SCCs reachable from t are among those reachable from s: a deviation
// never opens a final state that was not reachable without it.
func (g *Graph) CheckRecovery(rep *Report, only func(label string) bool, envChanging func(label string) bool) (edges int) {
	keys := make([]world.Key, 0, len(g.Nodes))
	for k := range g.Nodes {
		keys = append(keys, k)
	}
	sort.Slice(keys, func(i, j int) bool { return string(keys[i][:]) < string(keys[j][:]) })
	for _, k := range keys {
		n := g.Nodes[k]
		if !n.done {
			continue
		}
		in := map[int32]bool{}
		for _, b := range n.Reach {
			in[b] = true
		}
		for _, d := range n.Dev {
			if only != nil && !only(d.Label) {
				continue
			}
			t := g.Nodes[d.To]
			if t == nil || !t.done {
				continue
			}
			edges++
			for _, b := range t.Reach {
				if in[b] {
					continue
				}
				bk := g.Bottoms[b]
				bn := g.Nodes[bk]
				if bn.Excuse != "" {
					continue // outside the convergence premise
				}
				k, d, b := k, d, b
				why := "a final state that no fault-free run from the same state reaches"
				rule := "recovery-reaches-different-final-state"
				if bn.Goal != "" || !bn.Quiet || g.BottomSize[b] > 1 {
					rule = "recovery-gets-stuck"
					why = "a final state that is not a quiescent goal state (" + bn.Goal + ")"
				} else if envChanging != nil && envChanging(d.Label) {
					continue // the environment changed the world: a different (good) final state is legitimate
				}
				rep.Violation(g.Cfg.Prop, rule, fmt.Sprintf("after %s the system can end in %s", d.Label, why), func() interface{} {
					p := g.PathTo(k)
					p.Transitions = append(p.Transitions, d.Label)
					q := g.PathTo(bk)
					p.Note = fmt.Sprintf("after the last transition, progress leads to the bottom state reached (from a seed) by: %v / seed %s", q.Transitions, q.SeedLabel)
					return p
				})
				break
			}
		}
	}
	return
}

// memoryExhausted is the memory guard of the search: the sandbox has no
// memory limit and an out-of-memory kill is unrecoverable, so a search stops
// cleanly (reported as not exhaustive) once the heap passes VERIF_MEM_GB
// (default 16) gigabytes.
func memoryExhausted() bool {
	limit := 16.0
	if v, err := strconv.ParseFloat(os.Getenv("VERIF_MEM_GB"), 64); err == nil && v > 0 {
		limit = v
	}
	var m runtime.MemStats
	runtime.ReadMemStats(&m)
	return float64(m.HeapAlloc) > limit*(1<<30)
}
