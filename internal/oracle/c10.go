package oracle

import (
	"encoding/json"
	"fmt"
	"strings"

	asv1 "github.com/pingcap/advanced-statefulset/client/apis/apps/v1"
	appsv1 "k8s.io/api/apps/v1"
	v1 "k8s.io/api/core/v1"
	metav1 "k8s.io/apimachinery/pkg/apis/meta/v1"
	"k8s.io/apimachinery/pkg/labels"

	"verif/internal/world"
)

func init() {
	Monitors["C10"] = C10
	Monitors["C11"] = C11
	Monitors["C13"] = C13
}

func isAdoptPatch(c *world.Call) bool {
	return c.Verb == "patch" && strings.Contains(c.Patch, `"ownerReferences"`) && !strings.Contains(c.Patch, `"$patch":"delete"`)
}
func isReleasePatch(c *world.Call) bool {
	return c.Verb == "patch" && strings.Contains(c.Patch, `"$patch":"delete"`)
}

// freshConfirm reports whether a successful uncached read of the set with the
// same UID and no deletion timestamp precedes call c in the log.
func (v *View) freshConfirm(c *world.Call, needLive bool) bool {
	for _, x := range v.Rec.Calls {
		if x == c {
			return false
		}
		if x.Verb == "get" && x.Resource == "statefulsets" && x.Name == v.Set.Name && x.OK() {
			if s, ok := x.Result.(*asv1.StatefulSet); ok && s.UID == v.Set.UID && (!needLive || s.DeletionTimestamp == nil) {
				return true
			}
		}
	}
	return false
}

func (v *View) selector() labels.Selector {
	if v.Set == nil || v.Set.Spec.Selector == nil {
		return labels.Nothing()
	}
	s, err := metav1.LabelSelectorAsSelector(v.Set.Spec.Selector)
	if err != nil {
		return labels.Nothing()
	}
	return s
}

// C10: ownership.
func C10(v *View) []Violation {
	var out []Violation
	if v.Set == nil {
		return nil
	}
	set := v.Set
	sel := v.selector()
	claimedByName := map[string]bool{}
	for _, p := range v.Claimed {
		claimedByName[p.Name] = true
	}
	releases := map[string]int{}
	for _, c := range v.Rec.Calls {
		if c.Name == "" && c.Verb != "list" {
			continue // no name: the typed client rejects such a request before it is sent (seen after a failed revision Update, whose empty result the inherited retry code adopts)
		}
		if c.NS != set.Namespace {
			out = append(out, viol("C10", "call-outside-namespace", "%s is issued in namespace %q, the set lives in %q", c.ID, c.NS, set.Namespace))
		}
		if !c.IsWrite() {
			continue
		}
		switch c.Resource {
		case "statefulsets":
			if c.Sub != "status" {
				out = append(out, viol("C10", "set-written-outside-status", "%s writes the set's main resource", c.ID))
			}
		case "pods":
			if c.Verb == "create" {
				continue
			}
			cached := v.Rec.Before.Cache.Pods[c.Key]
			switch {
			case isAdoptPatch(c):
				why := ""
				switch {
				case cached == nil:
					why = "no such pod in the snapshot"
				case controllerOf(cached) != nil:
					why = "pod already has a controller"
				case !sel.Matches(labels.Set(cached.Labels)):
					why = "labels do not match the selector"
				case IsTerminating(cached):
					why = "pod is terminating"
				case v.Deleting:
					why = "the set is being deleted"
				default:
					if _, ok := OrdinalOf(set.Name, cached.Name); !ok {
						why = "name is not <set>-<ordinal>"
					} else if !v.freshConfirm(c, true) {
						why = "no preceding uncached read confirming the set (same UID, not deleting)"
					}
				}
				if why != "" {
					out = append(out, viol("C10", "bad-adoption", "%s: %s", c.ID, why))
				}
			case isReleasePatch(c):
				releases[c.Name]++
				why := ""
				switch {
				case cached == nil:
					why = "no such pod in the snapshot"
				case controllerOf(cached) == nil || controllerOf(cached).UID != set.UID:
					why = "pod is not controlled by this set"
				case v.Deleting:
					why = "the set is being deleted"
				default:
					_, member := OrdinalOf(set.Name, cached.Name)
					if member && sel.Matches(labels.Set(cached.Labels)) {
						why = "pod still matches"
					}
				}
				if why != "" {
					out = append(out, viol("C10", "bad-release", "%s: %s", c.ID, why))
				}
				if releases[c.Name] > 1 {
					out = append(out, viol("C10", "double-release", "%s: pod released more than once", c.ID))
				}
			default:
				if !claimedByName[c.Name] {
					owner := "nobody"
					if cached != nil {
						if r := controllerOf(cached); r != nil {
							owner = fmt.Sprintf("%s/%s uid=%s", r.Kind, r.Name, r.UID)
						}
					} else {
						owner = "(not in snapshot)"
					}
					out = append(out, viol("C10", "write-on-unclaimed-pod", "%s targets a pod that is not claimed by the set (controller: %s)", c.ID, owner))
				}
			}
			if t, ok := c.Target.(*v1.Pod); ok && t != nil {
				if r := controllerOf(t); r != nil && r.UID != set.UID {
					out = append(out, viol("C10", "write-on-foreign-pod", "%s targets a pod controlled by %s/%s uid=%s", c.ID, r.Kind, r.Name, r.UID))
				}
			}
		case "controllerrevisions":
			if c.Verb == "create" {
				continue
			}
			t, _ := c.Target.(*appsv1.ControllerRevision)
			if t == nil {
				continue // raced away; the call fails with NotFound
			}
			if r := controllerOf(t); r != nil && r.UID != set.UID {
				out = append(out, viol("C10", "write-on-foreign-revision", "%s targets a revision controlled by %s/%s uid=%s", c.ID, r.Kind, r.Name, r.UID))
			} else if r == nil && !revisionVisible(set, sel, t) {
				out = append(out, viol("C10", "write-on-unrelated-revision", "%s targets an orphan revision that neither matches the selector nor carries the upgrade marker", c.ID))
			} else if r == nil && !v.freshConfirm(c, true) {
				out = append(out, viol("C10", "orphan-revision-write-without-confirmation", "%s modifies an orphan revision without a preceding uncached read confirming the set (same UID, not deleting)", c.ID))
			}
		}
	}
	// released pods are not deleted
	for _, c := range v.Rec.Calls {
		if c.Verb == "delete" && c.Resource == "pods" && releases[c.Name] > 0 {
			out = append(out, viol("C10", "released-pod-deleted", "%s deletes a pod that was released", c.ID))
		}
	}
	// status counts claimed pods only
	for _, c := range v.Rec.Calls {
		if c.Verb == "update" && c.Resource == "statefulsets" && c.Sub == "status" {
			s, ok := c.Obj.(*asv1.StatefulSet)
			if !ok {
				continue
			}
			want := int32(len(v.Claimed))
			ready := int32(0)
			for _, p := range v.Claimed {
				if IsReady(p) {
					ready++
				}
			}
			for _, x := range v.Rec.Calls {
				if x == c {
					break
				}
				if x.Resource == "pods" && x.OK() {
					if x.Verb == "create" {
						want++
					}
					if x.Verb == "delete" {
						if o, ok := OrdinalOf(set.Name, x.Name); ok && v.Desired[o] && v.Claimed[o] != nil && IsDead(v.Claimed[o]) {
							want--
						}
					}
				}
			}
			if s.Status.Replicas != want {
				out = append(out, viol("C10", "status-counts-unclaimed", "%s writes replicas=%d, claimed pods (+creates, -replacements) give %d", c.ID, s.Status.Replicas, want))
			}
			if s.Status.ReadyReplicas != ready {
				out = append(out, viol("C10", "status-counts-unclaimed", "%s writes readyReplicas=%d, claimed ready pods are %d", c.ID, s.Status.ReadyReplicas, ready))
			}
		}
	}
	return out
}

// WritePayload is a comparable rendering of what a write submitted.
func WritePayload(c *world.Call) string {
	s := c.ID + "|" + c.Patch
	switch o := c.Obj.(type) {
	case *asv1.StatefulSet:
		b, _ := json.Marshal(o.Status)
		s += string(b)
	case *appsv1.ControllerRevision:
		s += fmt.Sprintf("rev=%d labels=%v owners=%d data=%s", o.Revision, o.Labels, len(o.OwnerReferences), o.Data.Raw)
	case *v1.Pod:
		b, _ := json.Marshal(o.Spec)
		s += fmt.Sprintf("labels=%v %s", o.Labels, b)
	}
	return s
}

// C10Differential compares the writes of a reconcile with those of the same
// snapshot stripped of every object controlled by another owner.
func C10Differential(with, without *world.Rec) []Violation {
	a, b := with.Writes(), without.Writes()
	for i := 0; i < len(a) || i < len(b); i++ {
		if i >= len(a) || i >= len(b) {
			return []Violation{viol("C10", "foreign-objects-change-behaviour", "write #%d differs: with foreign objects %v, without %v", i, callAt(a, i), callAt(b, i))}
		}
		if WritePayload(a[i]) != WritePayload(b[i]) {
			return []Violation{viol("C10", "foreign-objects-change-behaviour", "write #%d differs: with foreign objects {%s}, without {%s}", i, short(WritePayload(a[i])), short(WritePayload(b[i])))}
		}
		if a[i].OK() != b[i].OK() {
			return nil // legitimately diverges (e.g. name taken by a foreign object)
		}
	}
	return nil
}

func callAt(l []*world.Call, i int) string {
	if i < len(l) {
		return l[i].ID
	}
	return "(none)"
}

func short(s string) string {
	if len(s) > 300 {
		return s[:300] + "..."
	}
	return s
}

// C11: deleted and paused sets.
func C11(v *View) []Violation {
	var out []Violation
	if v.Set == nil {
		return nil
	}
	set := v.Set
	if v.Paused {
		for _, c := range v.Rec.Writes() {
			out = append(out, viol("C11", "write-while-paused", "%s issued for a paused set", c.ID))
		}
		return out
	}
	apiDeleting := false
	if a := v.Rec.Before.API.Sets[set.Name]; a != nil && a.DeletionTimestamp != nil {
		apiDeleting = true
	}
	for _, c := range v.Rec.Writes() {
		if v.Deleting {
			switch c.Resource {
			case "pods", "persistentvolumeclaims":
				out = append(out, viol("C11", "pod-or-claim-write-while-deleting", "%s issued for a set with a deletion timestamp", c.ID))
			case "controllerrevisions":
				if isAdoptPatch(c) || isReleasePatch(c) {
					out = append(out, viol("C11", "adoption-while-deleting", "%s adopts/releases a revision for a set with a deletion timestamp", c.ID))
				} else if t, ok := c.Target.(*appsv1.ControllerRevision); ok && t != nil && c.Verb != "create" {
					if r := controllerOf(t); r == nil || r.UID != set.UID {
						out = append(out, viol("C11", "foreign-revision-write-while-deleting", "%s modifies a revision not controlled by the deleting set", c.ID))
					}
				}
			}
		}
		if a := v.Rec.Before.API.Sets[set.Name]; a != nil && a.Annotations["paused-reconcile"] == "true" && !v.Paused {
			// the cache is stale: the uncached read that precedes every adoption shows the pause
			if isAdoptPatch(c) && (c.Resource == "pods" || c.Resource == "controllerrevisions") {
				out = append(out, viol("C11", "adoption-after-api-pause", "%s adopts although the API copy of the set, read just before, says paused", c.ID))
			}
		}
		if apiDeleting && !v.Deleting {
			// the cache is stale: the uncached read must stop adoptions
			if isAdoptPatch(c) && (c.Resource == "pods" || c.Resource == "controllerrevisions") {
				out = append(out, viol("C11", "adoption-after-api-deletion", "%s adopts although the API copy of the set carries a deletion timestamp", c.ID))
			}
		}
	}
	return out
}

// C13: history truncation.
func C13(v *View) []Violation {
	var out []Violation
	if v.Set == nil || v.Set.Spec.RevisionHistoryLimit == nil {
		return nil
	}
	set := v.Set
	limit := int(*set.Spec.RevisionHistoryLimit)
	// the revisions as they are when truncation starts: after creates/renumbering of this reconcile
	after := v.Rec.After.API.Revs
	before := v.Rec.Before.API.Revs
	var status *asv1.StatefulSetStatus
	for _, c := range v.Rec.Calls {
		if c.Verb == "update" && c.Resource == "statefulsets" && c.Sub == "status" {
			if s, ok := c.Obj.(*asv1.StatefulSet); ok {
				status = &s.Status
			}
		}
	}
	cur, upd := v.CurrentRev, v.UpdateRev
	if status != nil {
		cur, upd = status.CurrentRevision, status.UpdateRevision
	}
	live := map[string]bool{cur: true, upd: true, v.CurrentRev: true}
	for _, p := range v.Claimed {
		live[PodRev(p)] = true
	}
	// own revisions, by name, at truncation time
	own := map[string]*appsv1.ControllerRevision{}
	collect := func(m map[string]*appsv1.ControllerRevision) {
		for n, r := range m {
			if ref := controllerOf(r); ref != nil && ref.UID == set.UID {
				own[n] = r
			}
		}
	}
	collect(before)
	collect(after)
	// renumbered revisions: use the newest copy for ordering
	for n := range own {
		if r, ok := after[n]; ok {
			if ref := controllerOf(r); ref != nil && ref.UID == set.UID {
				own[n] = r
			}
		}
	}
	var unused []*appsv1.ControllerRevision
	for n, r := range own {
		if !live[n] {
			unused = append(unused, r)
		}
	}
	sortRevs(unused)
	deleted := map[string]int{}
	var order []string
	for _, c := range v.Rec.Calls {
		if c.Verb != "delete" || c.Resource != "controllerrevisions" {
			continue
		}
		deleted[c.Name]++
		order = append(order, c.Name)
		t, _ := c.Target.(*appsv1.ControllerRevision)
		if deleted[c.Name] > 1 {
			out = append(out, viol("C13", "revision-deleted-twice", "%s: revision already deleted in this reconcile (counted more than once)", c.ID))
			continue
		}
		if t == nil {
			continue
		}
		if ref := controllerOf(t); ref == nil || ref.UID != set.UID {
			out = append(out, viol("C13", "foreign-revision-deleted", "%s: revision is not controlled by this set", c.ID))
			continue
		}
		if live[c.Name] {
			out = append(out, viol("C13", "live-revision-deleted", "%s: revision is current/update or named by a pod's revision label", c.ID))
		}
	}
	excess := len(unused) - limit
	if excess < 0 {
		excess = 0
	}
	nOwnDeleted := 0
	for n := range deleted {
		if _, ok := own[n]; ok && !live[n] {
			nOwnDeleted++
		}
	}
	if nOwnDeleted > excess {
		out = append(out, viol("C13", "trimmed-below-limit", "deleted %d unused revisions although only %d exceed revisionHistoryLimit=%d (unused: %d)", nOwnDeleted, excess, limit, len(unused)))
	}
	// oldest first
	for i := 0; i < nOwnDeleted && i < len(unused); i++ {
		if deleted[unused[i].Name] == 0 {
			out = append(out, viol("C13", "not-oldest-first", "deleted %v but the oldest unused revision %s was kept", order, unused[i].Name))
			break
		}
	}
	// after a successful reconcile at most limit unused remain
	if v.Rec.Err == nil && v.Rec.Panic == nil && !v.Rec.Crash && !v.Paused && v.SelectorOK {
		remain := 0
		for _, r := range unused {
			if _, still := after[r.Name]; still {
				remain++
			}
		}
		if remain > limit {
			out = append(out, viol("C13", "history-not-trimmed", "after a successful reconcile %d unused revisions remain, limit %d", remain, limit))
		}
	}
	return out
}
