// Package oracle holds the reference model (written from the property text)
// and the per-reconcile monitors.
package oracle

import (
	"encoding/json"
	"fmt"
	"regexp"
	"sort"
	"strconv"
	"strings"

	asv1 "github.com/pingcap/advanced-statefulset/client/apis/apps/v1"
	appsv1 "k8s.io/api/apps/v1"
	v1 "k8s.io/api/core/v1"
	metav1 "k8s.io/apimachinery/pkg/apis/meta/v1"
	"k8s.io/apimachinery/pkg/labels"

	"verif/internal/world"
)

// Violation is one monitor report.
type Violation struct {
	Prop string
	Rule string // short stable identifier of the clause
	Msg  string
}

func (v Violation) String() string { return fmt.Sprintf("%s/%s: %s", v.Prop, v.Rule, v.Msg) }

// Desired is the reference desired-ordinal set: the first r non-negative
// integers that are not slots.
func Desired(r int32, slots map[int32]bool) []int32 {
	var out []int32
	for i := int32(0); int32(len(out)) < r; i++ {
		if !slots[i] {
			out = append(out, i)
		}
		if i == 1<<31-1 {
			break
		}
	}
	return out
}

// ParseSlots is the reference reading of the annotation: a JSON list of
// int32; anything else means "no slots".
func ParseSlots(ann map[string]string) map[int32]bool {
	out := map[int32]bool{}
	v, ok := ann["delete-slots"]
	if !ok {
		return out
	}
	// a list of int32 and nothing else: a null element names no ordinal (it is not ordinal 0), so a value that
	// contains one is as unusable as one that does not parse
	var l []*int32
	if err := json.Unmarshal([]byte(v), &l); err != nil {
		return out
	}
	for _, x := range l {
		if x == nil {
			return map[int32]bool{}
		}
	}
	for _, x := range l {
		out[*x] = true
	}
	return out
}

// View is what one reconcile saw, interpreted by the reference model.
type View struct {
	Rec      *world.Rec
	Set      *asv1.StatefulSet // cached set (nil: not in cache)
	Paused   bool
	Deleting bool
	Slots    map[int32]bool
	Desired  map[int]bool
	DesList  []int
	// Claimed: cached pods that belong to the set by the reference rule
	// (ordinal -> pod). Adopted: subset that was adopted in this reconcile.
	Claimed map[int]*v1.Pod
	Adopted map[string]bool
	// Orphans: unowned, live, matching, well-named pods of the snapshot whose adoption did not go through and was not
	// answered NotFound (then the pod is gone and the ordinal vacant): they hold their ordinal all the same
	Orphans  map[int]*v1.Pod
	Released map[string]bool
	// revisions visible to the set before the reconcile, by name
	Revs map[string]*appsv1.ControllerRevision
	// reference revision names (empty if they cannot be determined)
	UpdateRev  string
	CurrentRev string
	SetTmpl    string
	Monotonic  bool
	Strategy   string
	Partition  int  // meaningful when PartOK
	PartOK     bool // RollingUpdate with a partition present
	SelectorOK bool
}

var ordRe = regexp.MustCompile(`^(.*)-(0|[1-9][0-9]*)$`)

// OrdinalOf returns the ordinal of a pod name of the form <set>-<ordinal>.
func OrdinalOf(set, pod string) (int, bool) {
	m := ordRe.FindStringSubmatch(pod)
	if m == nil || m[1] != set {
		return -1, false
	}
	i, err := strconv.ParseInt(m[2], 10, 32)
	if err != nil {
		return -1, false
	}
	return int(i), true
}

func controllerOf(o metav1.Object) *metav1.OwnerReference {
	for _, r := range o.GetOwnerReferences() {
		if r.Controller != nil && *r.Controller {
			r := r
			return &r
		}
	}
	return nil
}

// ControllerOf is exported for other packages.
func ControllerOf(o metav1.Object) *metav1.OwnerReference { return controllerOf(o) }

// TemplateSig is the identity of a pod template: the image of its first container.
func TemplateSig(t *v1.PodTemplateSpec) string {
	if len(t.Spec.Containers) == 0 {
		return ""
	}
	return t.Spec.Containers[0].Image
}

// RevTemplateSig extracts the template identity recorded in revision data.
func RevTemplateSig(r *appsv1.ControllerRevision) string {
	var d struct {
		Spec struct {
			Template v1.PodTemplateSpec `json:"template"`
		} `json:"spec"`
	}
	if err := json.Unmarshal(r.Data.Raw, &d); err != nil {
		return "?"
	}
	return TemplateSig(&d.Spec.Template)
}

func IsReady(p *v1.Pod) bool {
	if p.Status.Phase != v1.PodRunning {
		return false
	}
	for _, c := range p.Status.Conditions {
		if c.Type == v1.PodReady {
			return c.Status == v1.ConditionTrue
		}
	}
	return false
}

func IsTerminating(p *v1.Pod) bool { return p.DeletionTimestamp != nil }
func IsDead(p *v1.Pod) bool {
	return p.Status.Phase == v1.PodFailed || p.Status.Phase == v1.PodSucceeded
}
func IsHealthy(p *v1.Pod) bool { return IsReady(p) && !IsTerminating(p) }
func PodRev(p *v1.Pod) string  { return p.Labels["controller-revision-hash"] }

// revisionVisible: the set lists a revision if it carries the selector's
// labels or the upgrade marker naming the set.
func revisionVisible(set *asv1.StatefulSet, sel labels.Selector, r *appsv1.ControllerRevision) bool {
	if sel != nil && sel.Matches(labels.Set(r.Labels)) {
		return true
	}
	return r.Labels["apps.pingcap.com/upgrade-to-asts"] == set.Name
}

func sortRevs(l []*appsv1.ControllerRevision) {
	sort.SliceStable(l, func(i, j int) bool {
		if l[i].Revision != l[j].Revision {
			return l[i].Revision < l[j].Revision
		}
		if !l[i].CreationTimestamp.Equal(&l[j].CreationTimestamp) {
			return l[i].CreationTimestamp.Before(&l[j].CreationTimestamp)
		}
		return l[i].Name < l[j].Name
	})
}

// NewView interprets a reconcile record.
func NewView(rec *world.Rec) *View {
	v := &View{Rec: rec, Claimed: map[int]*v1.Pod{}, Adopted: map[string]bool{}, Released: map[string]bool{},
		Desired: map[int]bool{}, Revs: map[string]*appsv1.ControllerRevision{}}
	parts := strings.SplitN(rec.Key, "/", 2)
	name := parts[len(parts)-1]
	v.Set = rec.Before.Cache.Sets[name]
	if v.Set == nil {
		return v
	}
	set := v.Set
	v.Paused = set.Annotations["paused-reconcile"] == "true"
	v.Deleting = set.DeletionTimestamp != nil
	v.Slots = ParseSlots(set.Annotations)
	if set.Spec.Replicas != nil {
		for _, d := range Desired(*set.Spec.Replicas, v.Slots) {
			v.Desired[int(d)] = true
			v.DesList = append(v.DesList, int(d))
		}
	}
	v.Monotonic = set.Spec.PodManagementPolicy != asv1.ParallelPodManagement
	v.Strategy = string(set.Spec.UpdateStrategy.Type)
	if v.Strategy == "" {
		// the type is what defaulting would fill in; the controller treats an omitted type as RollingUpdate
		v.Strategy = "RollingUpdate"
	}
	if ru := set.Spec.UpdateStrategy.RollingUpdate; v.Strategy == "RollingUpdate" && ru != nil && ru.Partition != nil {
		v.Partition, v.PartOK = int(*ru.Partition), true
	}
	var sel labels.Selector
	if set.Spec.Selector != nil {
		if s, err := metav1.LabelSelectorAsSelector(set.Spec.Selector); err == nil {
			sel = s
			v.SelectorOK = true
		}
	}
	// adoption / release patches that succeeded in this reconcile
	adoptGone := map[string]bool{}
	v.Orphans = map[int]*v1.Pod{}
	for _, c := range rec.Calls {
		if c.Verb == "patch" && c.Resource == "pods" && !c.Applied && (c.Err == "NotFound" || strings.Contains(c.Err, "not found")) {
			adoptGone[c.Name] = true
		}
		if c.Verb == "patch" && c.Resource == "pods" && c.Applied {
			if strings.Contains(c.Patch, `"$patch":"delete"`) {
				v.Released[c.Name] = true
			} else if strings.Contains(c.Patch, `"ownerReferences"`) {
				v.Adopted[c.Name] = true
			}
		}
	}
	for _, k := range world.SortedKeys(rec.Before.Cache.Pods) {
		p := rec.Before.Cache.Pods[k]
		ord, ok := OrdinalOf(set.Name, p.Name)
		if !ok || sel == nil || !sel.Matches(labels.Set(p.Labels)) || p.Namespace != set.Namespace {
			continue
		}
		ref := controllerOf(p)
		switch {
		case ref != nil && ref.UID == set.UID:
			v.Claimed[ord] = p
		case ref == nil && v.Adopted[p.Name]:
			v.Claimed[ord] = p
		case ref == nil && p.DeletionTimestamp == nil && !adoptGone[p.Name]:
			v.Orphans[ord] = p
		}
	}
	// revisions
	v.SetTmpl = TemplateSig(&set.Spec.Template)
	var listed []*appsv1.ControllerRevision
	for _, k := range world.SortedKeys(rec.Before.API.Revs) {
		r := rec.Before.API.Revs[k]
		if revisionVisible(set, sel, r) {
			v.Revs[r.Name] = r
			listed = append(listed, r)
		}
	}
	sortRevs(listed)
	for _, c := range rec.Calls {
		if c.Verb == "create" && c.Resource == "controllerrevisions" && c.Applied {
			v.UpdateRev = c.Name
		}
	}
	if v.UpdateRev == "" {
		for _, r := range listed {
			if RevTemplateSig(r) == v.SetTmpl {
				v.UpdateRev = r.Name
			}
		}
	}
	if v.UpdateRev == "" {
		// the create answered AlreadyExists for an identical revision (an earlier incarnation made it)
		for _, c := range rec.Calls {
			if c.Verb == "get" && c.Resource == "controllerrevisions" && c.OK() {
				if r, ok := c.Result.(*appsv1.ControllerRevision); ok && RevTemplateSig(r) == v.SetTmpl {
					v.UpdateRev = r.Name
				}
			}
		}
	}
	if _, ok := v.Revs[set.Status.CurrentRevision]; ok && set.Status.CurrentRevision != "" {
		v.CurrentRev = set.Status.CurrentRevision
	} else {
		v.CurrentRev = v.UpdateRev
	}
	return v
}

// PodCall describes a create/delete on pods in terms of the view.
type PodCall struct {
	Call  *world.Call
	Ord   int
	OrdOK bool
	Snap  *v1.Pod // claimed pod at that ordinal in the snapshot (nil if none)
	Class string  // deletes: "a" | "b" | "c" | "" (unjustified)
}

// PodCalls returns the creates and deletes on pods in log order.
func (v *View) PodCalls() (creates, deletes []*PodCall) {
	if v.Set == nil {
		return
	}
	for _, c := range v.Rec.Calls {
		if c.Resource != "pods" || c.Sub != "" || (c.Verb != "create" && c.Verb != "delete") {
			continue
		}
		pc := &PodCall{Call: c}
		pc.Ord, pc.OrdOK = OrdinalOf(v.Set.Name, c.Name)
		if pc.OrdOK {
			if p := v.Claimed[pc.Ord]; p != nil && p.Name == c.Name {
				pc.Snap = p
			}
		}
		if c.Verb == "create" {
			creates = append(creates, pc)
			continue
		}
		switch {
		case pc.Snap == nil:
		case !v.Desired[pc.Ord]:
			pc.Class = "a"
		case IsDead(pc.Snap):
			pc.Class = "b"
		case v.Strategy == "RollingUpdate" && v.PartOK && pc.Ord >= v.Partition && v.UpdateRev != "" && PodRev(pc.Snap) != v.UpdateRev:
			pc.Class = "c"
		}
		deletes = append(deletes, pc)
	}
	return
}

func (v *View) sortedClaimed() []int {
	var l []int
	for o := range v.Claimed {
		l = append(l, o)
	}
	sort.Ints(l)
	return l
}

// Condemned returns the claimed ordinals outside the desired set, ascending.
func (v *View) Condemned() []int {
	var l []int
	for _, o := range v.sortedClaimed() {
		if !v.Desired[o] {
			l = append(l, o)
		}
	}
	return l
}
