package oracle

import (
	"fmt"
	"sort"
	"strings"

	asv1 "github.com/pingcap/advanced-statefulset/client/apis/apps/v1"
	v1 "k8s.io/api/core/v1"

	"verif/internal/world"
)

// Monitor judges one reconcile for one property.
type Monitor func(v *View) []Violation

func viol(prop, rule, f string, a ...interface{}) Violation {
	return Violation{Prop: prop, Rule: rule, Msg: fmt.Sprintf(f, a...)}
}

// Monitors is the registry, by property id.
var Monitors = map[string]Monitor{
	"C03": C03, "C04": C04, "C05": C05, "C07": C07, "C12": C12, "C14": C14, "C15": C15,
}

// C15: no panic.
func C15(v *View) []Violation {
	if v.Rec.Panic != nil {
		return []Violation{viol("C15", "panic@"+PanicSite(v.Rec.Stack), "reconcile panicked: %v", v.Rec.Panic)}
	}
	return nil
}

// C03: every pod delete is justified.
func C03(v *View) []Violation {
	var out []Violation
	if v.Set == nil {
		return nil
	}
	creates, deletes := v.PodCalls()
	for _, d := range deletes {
		c := d.Call
		switch d.Class {
		case "":
			why := "no claimed pod of that name in the snapshot"
			if d.Snap != nil {
				why = fmt.Sprintf("pod is desired (ord %d), phase=%s rev=%s update=%s strategy=%s partition=%d", d.Ord, d.Snap.Status.Phase, PodRev(d.Snap), v.UpdateRev, v.Strategy, v.Partition)
			}
			out = append(out, viol("C03", "unjustified-delete", "%s: %s", c.ID, why))
		case "b":
			if !c.OK() {
				break
			}
			replaced := false
			after := false
			for _, x := range v.Rec.Calls {
				if x == c {
					after = true
					continue
				}
				if !after {
					continue
				}
				if x.Verb == "create" && x.Resource == "pods" && x.Name == c.Name {
					replaced = true
				}
				if x.Verb == "create" && x.Resource == "persistentvolumeclaims" && !x.OK() && strings.HasSuffix(x.Name, fmt.Sprintf("-%s-%d", v.Set.Name, d.Ord)) {
					replaced = true // replacement attempted, claim creation failed
				}
			}
			if !replaced && !v.Rec.Crash {
				out = append(out, viol("C03", "dead-pod-not-replaced", "%s removed a %s pod but no create for it follows in the same reconcile", c.ID, d.Snap.Status.Phase))
			}
		}
		// absolute clause: API truth at the time of the call
		if t, ok := c.Target.(*v1.Pod); ok && t != nil && c.Applied && d.OrdOK && v.Desired[d.Ord] && !IsDead(t) && !IsTerminating(t) {
			upToDate := false
			switch {
			case v.Strategy == "OnDelete":
				upToDate = true
			case v.PartOK && d.Ord < v.Partition:
				upToDate = true
			case v.PartOK && v.UpdateRev != "" && PodRev(t) == v.UpdateRev:
				upToDate = true
			}
			ref := controllerOf(t)
			if upToDate && ref != nil && ref.UID == v.Set.UID {
				out = append(out, viol("C03", "live-uptodate-pod-deleted", "%s hit a live, desired, up-to-date pod (rev=%s)", c.ID, PodRev(t)))
			}
		}
	}
	_ = creates
	return out
}

// C04: creates only at vacant desired ordinals.
func C04(v *View) []Violation {
	var out []Violation
	if v.Set == nil {
		return nil
	}
	creates, _ := v.PodCalls()
	for _, cr := range creates {
		c := cr.Call
		if !cr.OrdOK {
			out = append(out, viol("C04", "bad-name", "%s: name is not <set>-<ordinal>", c.ID))
			continue
		}
		if v.Deleting {
			out = append(out, viol("C04", "create-while-deleting", "%s for a set with a deletion timestamp", c.ID))
		}
		if v.Slots[int32(cr.Ord)] {
			out = append(out, viol("C04", "create-in-slot", "%s: ordinal %d is a delete slot", c.ID, cr.Ord))
		} else if !v.Desired[cr.Ord] {
			out = append(out, viol("C04", "create-outside-desired", "%s: ordinal %d not in desired %v", c.ID, cr.Ord, v.DesList))
		}
		if p := v.Claimed[cr.Ord]; p != nil {
			ok := false
			if IsDead(p) {
				for _, x := range v.Rec.Calls {
					if x == c {
						break
					}
					if x.Verb == "delete" && x.Resource == "pods" && x.Name == p.Name && x.OK() {
						ok = true
					}
				}
			}
			if !ok {
				out = append(out, viol("C04", "create-occupied", "%s: ordinal %d holds pod %s (phase %s) in the snapshot", c.ID, cr.Ord, p.Name, p.Status.Phase))
			}
		} else if p := v.Orphans[cr.Ord]; p != nil && p.Name == c.Name {
			out = append(out, viol("C04", "create-occupied-by-orphan", "%s: ordinal %d holds the matching orphan pod %s in the snapshot, which the set would adopt; its adoption did not go through and the pod was not reported gone", c.ID, cr.Ord, p.Name))
		}
	}
	return out
}

// C05: OrderedReady discipline.
func C05(v *View) []Violation {
	var out []Violation
	if v.Set == nil || !v.Monotonic {
		return nil
	}
	creates, deletes := v.PodCalls()
	touched := map[string]bool{}
	for _, c := range creates {
		touched[c.Call.Name] = true
	}
	for _, d := range deletes {
		touched[d.Call.Name] = true
	}
	if len(touched) > 1 {
		var l []string
		for k := range touched {
			l = append(l, k)
		}
		sort.Strings(l)
		out = append(out, viol("C05", "more-than-one-ordinal", "one reconcile created/deleted pods at %v", l))
	}
	allDesiredReady := func() (bool, string) {
		for _, o := range v.DesList {
			p := v.Claimed[o]
			if p == nil {
				return false, fmt.Sprintf("desired pod %d missing", o)
			}
			if !IsReady(p) {
				return false, fmt.Sprintf("desired pod %d not Running and Ready", o)
			}
		}
		return true, ""
	}
	for _, c := range creates {
		if !c.OrdOK {
			continue
		}
		for _, o := range v.DesList {
			if o >= c.Ord {
				break
			}
			p := v.Claimed[o]
			if p == nil || !IsHealthy(p) {
				out = append(out, viol("C05", "create-before-predecessor-healthy", "%s while desired predecessor %d is not Running+Ready+non-terminating", c.Call.ID, o))
				break
			}
		}
	}
	cond := v.Condemned()
	for _, d := range deletes {
		switch d.Class {
		case "a":
			if ok, why := allDesiredReady(); !ok {
				out = append(out, viol("C05", "scale-in-while-unhealthy", "%s although %s", d.Call.ID, why))
			}
			if top := cond[len(cond)-1]; d.Ord != top {
				out = append(out, viol("C05", "scale-in-not-from-top", "%s but the highest condemned pod present is %d", d.Call.ID, top))
			}
		case "c":
			if len(cond) > 0 {
				out = append(out, viol("C05", "update-before-scale-in", "%s while condemned pods %v are still present", d.Call.ID, cond))
			}
			for _, o := range v.DesList {
				p := v.Claimed[o]
				if p == nil || !IsHealthy(p) {
					out = append(out, viol("C05", "update-while-unhealthy", "%s while desired pod %d is not healthy", d.Call.ID, o))
					break
				}
			}
		}
	}
	return out
}

// C07: rolling update / OnDelete.
func C07(v *View) []Violation {
	var out []Violation
	if v.Set == nil {
		return nil
	}
	creates, deletes := v.PodCalls()
	nC := 0
	for _, d := range deletes {
		// an update-delete is a delete of a live pod of the desired set
		if d.Snap == nil || !v.Desired[d.Ord] || IsDead(d.Snap) {
			continue
		}
		nC++
		if v.Strategy == "OnDelete" {
			out = append(out, viol("C07", "ondelete-restart", "%s under OnDelete (pod rev %s, update rev %s)", d.Call.ID, PodRev(d.Snap), v.UpdateRev))
			continue
		}
		if !v.PartOK {
			continue
		}
		if d.Ord < v.Partition {
			out = append(out, viol("C07", "below-partition", "%s: ordinal %d is below partition %d", d.Call.ID, d.Ord, v.Partition))
		}
		for _, o := range v.DesList {
			if o <= d.Ord {
				continue
			}
			p := v.Claimed[o]
			if p == nil || PodRev(p) != v.UpdateRev || !IsHealthy(p) {
				out = append(out, viol("C07", "not-highest-first", "%s while higher desired ordinal %d is not (present, at update revision, Running, Ready)", d.Call.ID, o))
				break
			}
		}
	}
	if nC > 1 {
		out = append(out, viol("C07", "two-update-deletes", "%d pods taken down for update in one reconcile", nC))
	}
	if v.PartOK {
		for _, c := range creates {
			if !c.OrdOK || !c.Call.OK() && c.Call.Obj == nil {
				continue
			}
			p, ok := c.Call.Obj.(*v1.Pod)
			if !ok {
				continue
			}
			want := v.UpdateRev
			if c.Ord < v.Partition {
				want = v.CurrentRev
			}
			if want == "" {
				continue
			}
			if got := PodRev(p); got != want {
				out = append(out, viol("C07", "new-pod-wrong-revision", "%s carries revision %s, ordinal %d vs partition %d calls for %s", c.Call.ID, got, c.Ord, v.Partition, want))
				continue
			}
			// the pod's spec must be the template recorded in that revision
			rev := v.Revs[want]
			if rev == nil {
				for _, x := range v.Rec.After.API.Revs {
					if x.Name == want {
						rev = x
					}
				}
			}
			if rev != nil && len(p.Spec.Containers) > 0 {
				if sig := RevTemplateSig(rev); sig != "?" && p.Spec.Containers[0].Image != sig {
					out = append(out, viol("C07", "new-pod-wrong-template", "%s labelled %s but built from image %s, revision records %s", c.Call.ID, want, p.Spec.Containers[0].Image, sig))
				}
			}
		}
	}
	return out
}

// C14: Parallel never waits.
func C14(v *View) []Violation {
	var out []Violation
	if v.Set == nil || v.Monotonic || v.Paused || v.Deleting || !v.SelectorOK {
		return nil
	}
	if v.Rec.Panic != nil || v.Rec.Crash {
		return nil
	}
	if v.Rec.Err != nil && !controllerMadeError(v.Rec) {
		// "absent API errors": a reconcile cut short by a failed request (or by a refused adoption, which is the
		// controller declining to act on a stale cache) is excused; an error the controller makes up itself although
		// every request succeeded is not
		return nil
	}
	creates, deletes := v.PodCalls()
	created, deleted := map[int]bool{}, map[int]bool{}
	for _, c := range creates {
		created[c.Ord] = true
	}
	nC := 0
	for _, d := range deletes {
		deleted[d.Ord] = true
		if d.Class == "c" {
			nC++
		}
	}
	for _, o := range v.DesList {
		p := v.Claimed[o]
		if (p == nil || IsDead(p)) && !created[o] {
			out = append(out, viol("C14", "vacancy-not-filled", "vacant desired ordinal %d was not created in this reconcile", o))
		}
	}
	for _, o := range v.Condemned() {
		if p := v.Claimed[o]; !IsTerminating(p) && !deleted[o] {
			out = append(out, viol("C14", "condemned-not-deleted", "live pod %s outside the desired set was not deleted in this reconcile", p.Name))
		}
	}
	if nC > 1 {
		out = append(out, viol("C14", "two-update-deletes", "%d update deletes in one reconcile", nC))
	}
	return out
}

// controllerMadeError: the reconcile returned an error although no request failed, no lookup failure was injected and
// the error is not one of the documented refusals to act on a cache that disagrees with the API server.
func controllerMadeError(rec *world.Rec) bool {
	if rec.Err == nil || rec.LookupFailed {
		return false
	}
	for _, c := range rec.Calls {
		if c.Err != "" || c.Fault != "" {
			return false
		}
	}
	msg := rec.Err.Error()
	for _, refusal := range []string{"is gone: got uid", "has just been deleted", "can't adopt", "can't recheck DeletionTimestamp"} {
		if strings.Contains(msg, refusal) {
			return false
		}
	}
	return true
}

// C12: status writes.
func C12(v *View) []Violation {
	var out []Violation
	if v.Set == nil {
		return nil
	}
	for _, c := range v.Rec.Calls {
		if c.Verb != "update" || c.Resource != "statefulsets" || c.Sub != "status" {
			continue
		}
		s, ok := c.Obj.(*asv1.StatefulSet)
		if !ok {
			continue
		}
		st := s.Status
		for _, f := range []struct {
			n string
			x int32
		}{{"readyReplicas", st.ReadyReplicas}, {"currentReplicas", st.CurrentReplicas}, {"updatedReplicas", st.UpdatedReplicas}} {
			if f.x < 0 || f.x > st.Replicas {
				out = append(out, viol("C12", "counter-out-of-range:"+f.n, "%s writes %s=%d with replicas=%d", c.ID, f.n, f.x, st.Replicas))
			}
		}
		if st.ObservedGeneration != v.Set.Generation {
			out = append(out, viol("C12", "observed-generation", "%s writes observedGeneration=%d, reconciled generation %d", c.ID, st.ObservedGeneration, v.Set.Generation))
		}
		// a stored value ahead of the object's own generation was not written by this controller for this object
		// (helper.Upgrade copies the built-in status into a fresh object; a restore from backup): no write can both
		// equal the reconciled generation and not be lower than it, so the monotonic clause is about values that can
		// be the controller's own
		if t, ok := c.Target.(*asv1.StatefulSet); ok && t != nil && st.ObservedGeneration < t.Status.ObservedGeneration && t.Status.ObservedGeneration <= t.Generation {
			out = append(out, viol("C12", "observed-generation-regressed", "%s writes observedGeneration=%d below stored %d", c.ID, st.ObservedGeneration, t.Status.ObservedGeneration))
		}
		old := v.Set.Status.CurrentRevision
		// the record of the current revision is there when the API holds it under that name, controlled by this set (the
		// controller made it: whether its own listing finds it again is the controller's business, not an excuse)
		_, exists := v.Revs[old]
		if r := v.Rec.Before.API.Revs[world.ObjKey(v.Set.Namespace, old)]; r != nil && !exists {
			if ref := ControllerOf(r); ref != nil && ref.UID == v.Set.UID && r.DeletionTimestamp == nil {
				exists = true
			}
		}
		if exists && old != "" && st.CurrentRevision != old {
			if st.CurrentRevision != st.UpdateRevision {
				out = append(out, viol("C12", "current-revision-jump", "%s moves currentRevision %s -> %s which is not the update revision %s", c.ID, old, st.CurrentRevision, st.UpdateRevision))
			}
			for _, o := range v.sortedClaimed() {
				p := v.Claimed[o]
				if PodRev(p) != st.UpdateRevision || !IsReady(p) {
					out = append(out, viol("C12", "premature-completion", "%s moves currentRevision %s -> %s although pod %s is rev=%s ready=%v", c.ID, old, st.CurrentRevision, p.Name, PodRev(p), IsReady(p)))
					break
				}
			}
		}
	}
	return out
}

// Census returns the counters an exact census of the API pods would give.
func Census(st *world.State, set *asv1.StatefulSet) (replicas, ready, current, updated int32) {
	for _, p := range st.API.Pods {
		ref := controllerOf(p)
		if ref == nil || ref.UID != set.UID {
			continue
		}
		replicas++
		if IsReady(p) {
			ready++
		}
		if PodRev(p) == set.Status.CurrentRevision {
			current++
		}
		if PodRev(p) == set.Status.UpdateRevision {
			updated++
		}
	}
	return
}

// PanicSite is set by the explore package (avoids an import cycle).
var PanicSite = func(stack string) string { return "unknown" }
