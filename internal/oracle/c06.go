package oracle

import (
	"fmt"
	"sort"
	"strings"

	v1 "k8s.io/api/core/v1"
)

func init() { Monitors["C06"] = C06 }

// C06: identity and storage of created pods; claims first; claims never removed.
func C06(v *View) []Violation {
	var out []Violation
	if v.Set == nil {
		return nil
	}
	set := v.Set
	// claims known to exist in the API as the log proceeds
	claims := map[string]bool{}
	for n := range v.Rec.Before.API.PVCs {
		claims[n] = true
	}
	failedClaimOrd := map[int]string{}
	for _, c := range v.Rec.Calls {
		if c.Resource == "persistentvolumeclaims" && c.IsWrite() {
			if c.Verb != "create" {
				out = append(out, viol("C06", "claim-rewritten-or-deleted", "%s: the controller must never %s a claim", c.ID, c.Verb))
				continue
			}
			pvc, _ := c.Obj.(*v1.PersistentVolumeClaim)
			if c.Applied || c.OK() || c.Err == "AlreadyExists" {
				claims[c.Name] = true
			}
			if pvc != nil {
				if set.Spec.Selector != nil {
					for k, val := range set.Spec.Selector.MatchLabels {
						if pvc.Labels[k] != val {
							out = append(out, viol("C06", "claim-without-selector-labels", "%s: created claim lacks selector label %s=%s", c.ID, k, val))
						}
					}
				}
				if pvc.Namespace != set.Namespace {
					out = append(out, viol("C06", "claim-namespace", "%s: claim created in namespace %q", c.ID, pvc.Namespace))
				}
			}
			if !c.OK() {
				// remember which ordinal lost a claim
				suffix := "-" + set.Name + "-"
				if i := strings.LastIndex(c.Name, suffix); i >= 0 {
					var ord int
					if _, err := fmt.Sscanf(c.Name[i+len(suffix):], "%d", &ord); err == nil {
						failedClaimOrd[ord] = c.ID + " -> " + c.Err
					}
				}
			}
			continue
		}
		if c.Verb != "create" || c.Resource != "pods" {
			continue
		}
		p, _ := c.Obj.(*v1.Pod)
		if p == nil {
			continue
		}
		ord, ok := OrdinalOf(set.Name, p.Name)
		if !ok {
			out = append(out, viol("C06", "pod-name", "%s: created pod name is not <set>-<ordinal>", c.ID))
			continue
		}
		if why, bad := failedClaimOrd[ord]; bad {
			out = append(out, viol("C06", "pod-created-despite-claim-failure", "%s issued although a claim of that ordinal could not be created (%s)", c.ID, why))
		}
		want := fmt.Sprintf("%s-%d", set.Name, ord)
		if p.Namespace != set.Namespace {
			out = append(out, viol("C06", "pod-namespace", "%s: namespace %q", c.ID, p.Namespace))
		}
		if p.Spec.Hostname != want {
			out = append(out, viol("C06", "pod-hostname", "%s: hostname %q, want %q", c.ID, p.Spec.Hostname, want))
		}
		if p.Spec.Subdomain != set.Spec.ServiceName {
			out = append(out, viol("C06", "pod-subdomain", "%s: subdomain %q, governing service %q", c.ID, p.Spec.Subdomain, set.Spec.ServiceName))
		}
		if p.Labels["statefulset.kubernetes.io/pod-name"] != want {
			out = append(out, viol("C06", "pod-name-label", "%s: pod-name label %q", c.ID, p.Labels["statefulset.kubernetes.io/pod-name"]))
		}
		rev := v.Rec.After.API.Revs[PodRev(p)]
		if r2, ok := v.Revs[PodRev(p)]; ok && rev == nil {
			rev = r2
		}
		if rev == nil {
			out = append(out, viol("C06", "pod-revision-label", "%s: revision label %q names no stored revision", c.ID, PodRev(p)))
		} else if len(p.Spec.Containers) > 0 && RevTemplateSig(rev) != p.Spec.Containers[0].Image {
			out = append(out, viol("C06", "pod-revision-label", "%s: labelled %s (template %s) but built from %s", c.ID, rev.Name, RevTemplateSig(rev), p.Spec.Containers[0].Image))
		}
		ref := controllerOf(p)
		if ref == nil || ref.UID != set.UID || ref.Kind != "StatefulSet" || ref.APIVersion != "apps.pingcap.com/v1" || ref.Name != set.Name {
			out = append(out, viol("C06", "pod-owner-reference", "%s: controller reference %+v", c.ID, ref))
		}
		vols := map[string]v1.Volume{}
		for _, vol := range p.Spec.Volumes {
			if _, dup := vols[vol.Name]; dup {
				out = append(out, viol("C06", "pod-duplicate-volume", "%s: volume %s appears twice", c.ID, vol.Name))
			}
			vols[vol.Name] = vol
		}
		tmplNames := map[string]bool{}
		for _, ct := range set.Spec.VolumeClaimTemplates {
			tmplNames[ct.Name] = true
			claimName := fmt.Sprintf("%s-%s-%d", ct.Name, set.Name, ord)
			vol, ok := vols[ct.Name]
			if !ok || vol.PersistentVolumeClaim == nil || vol.PersistentVolumeClaim.ClaimName != claimName {
				out = append(out, viol("C06", "pod-volume-binding", "%s: no volume %s bound to claim %s", c.ID, ct.Name, claimName))
			}
			if !claims[claimName] {
				out = append(out, viol("C06", "pod-before-claim", "%s issued before claim %s exists", c.ID, claimName))
			}
		}
		var lost []string
		for _, tv := range set.Spec.Template.Spec.Volumes {
			if tmplNames[tv.Name] {
				continue
			}
			if _, ok := vols[tv.Name]; !ok {
				lost = append(lost, tv.Name)
			}
		}
		if len(lost) > 0 {
			sort.Strings(lost)
			out = append(out, viol("C06", "pod-template-volume-lost", "%s: template volumes %v missing from the pod", c.ID, lost))
		}
	}
	return out
}
