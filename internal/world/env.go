package world

import (
	"fmt"
	"sort"
	"strings"

	asv1 "github.com/pingcap/advanced-statefulset/client/apis/apps/v1"
	v1 "k8s.io/api/core/v1"
	metav1 "k8s.io/apimachinery/pkg/apis/meta/v1"
)

// Environment transitions: pure functions on a State (applied to a clone by
// the caller). Each is identified by a label so that a path can be replayed.

func podIsReady(p *v1.Pod) bool { return p.Status.Phase == v1.PodRunning && podReady(p) }

// EnvProgress lists the enabled progress transitions of the environment:
// kubelet forward / finish and cache delivery.
func EnvProgress(s *State) []string {
	var out []string
	for _, n := range sortedKeys(s.API.Pods) {
		p := s.API.Pods[n]
		switch {
		case p.DeletionTimestamp != nil:
			out = append(out, "finish "+n)
		case p.Status.Phase == v1.PodPending || (p.Status.Phase == v1.PodRunning && !podReady(p)):
			out = append(out, "forward "+n)
		}
	}
	seen := map[string]bool{}
	for _, e := range s.Pending {
		if !seen[e.Kind] {
			seen[e.Kind] = true
			out = append(out, "deliver "+e.Kind)
		}
	}
	return out
}

// Apply executes an environment transition by label on s (in place). lag is
// the cache-lag bound in force.
func Apply(s *State, label string, lag int) error {
	f := strings.Fields(label)
	if len(f) < 2 {
		return fmt.Errorf("bad transition %q", label)
	}
	arg := f[1]
	setName := "web"
	if _, ok := s.API.Sets[setName]; !ok && len(s.API.Sets) == 1 {
		for n := range s.API.Sets {
			setName = n
		}
	}
	bump := func(p *v1.Pod) *v1.Pod {
		n := p.DeepCopy()
		n.ResourceVersion = s.nextRV()
		return n
	}
	editSet := func(fn func(x *asv1.StatefulSet), specChange bool) error {
		cur := s.API.Sets[setName]
		if cur == nil {
			return fmt.Errorf("no set")
		}
		n := cur.DeepCopy()
		fn(n)
		if specChange {
			n.Generation++
		}
		n.ResourceVersion = s.nextRV()
		s.PutSet(n, lag)
		return nil
	}
	switch f[0] {
	case "forward":
		p := s.API.Pods[arg]
		if p == nil {
			return fmt.Errorf("no pod %s", arg)
		}
		n := bump(p)
		n.Status.Phase = v1.PodRunning
		n.Status.Conditions = []v1.PodCondition{{Type: v1.PodReady, Status: v1.ConditionTrue}}
		s.PutPod(n, lag)
	case "finish":
		if s.API.Pods[arg] == nil {
			return fmt.Errorf("no pod %s", arg)
		}
		s.DelPod(arg, lag)
	case "deliver":
		if !s.Deliver(arg) {
			return fmt.Errorf("nothing to deliver for %s", arg)
		}
	case "gcorphan":
		// the garbage collector strips owner references to an owner deleted with orphan propagation
		kindName := strings.SplitN(arg, "/", 2)
		if len(kindName) != 2 || len(f) < 3 {
			return fmt.Errorf("bad gcorphan %q", label)
		}
		uid := f[2]
		switch kindName[0] {
		case "pods":
			p := s.API.Pods[kindName[1]]
			if p == nil {
				return fmt.Errorf("no pod %s", kindName[1])
			}
			n := bump(p)
			n.OwnerReferences = stripOwner(n.OwnerReferences, uid)
			s.PutPod(n, lag)
		case "revs":
			r := s.API.Revs[kindName[1]]
			if r == nil {
				return fmt.Errorf("no revision %s", kindName[1])
			}
			n := r.DeepCopy()
			n.ResourceVersion = s.nextRV()
			n.OwnerReferences = stripOwner(n.OwnerReferences, uid)
			s.PutRev(n)
		default:
			return fmt.Errorf("bad gcorphan kind %q", kindName[0])
		}
	case "unready", "fail", "succeed":
		p := s.API.Pods[arg]
		if p == nil {
			return fmt.Errorf("no pod %s", arg)
		}
		n := bump(p)
		switch f[0] {
		case "unready":
			n.Status.Phase = v1.PodRunning
			n.Status.Conditions = []v1.PodCondition{{Type: v1.PodReady, Status: v1.ConditionFalse}}
		case "fail":
			n.Status.Phase = v1.PodFailed
			n.Status.Conditions = nil
		case "succeed":
			n.Status.Phase = v1.PodSucceeded
			n.Status.Conditions = nil
		}
		s.PutPod(n, lag)
	case "userdelete":
		p := s.API.Pods[arg]
		if p == nil {
			return fmt.Errorf("no pod %s", arg)
		}
		if p.Status.Phase == v1.PodFailed || p.Status.Phase == v1.PodSucceeded {
			s.DelPod(arg, lag)
			break
		}
		n := bump(p)
		ts := metav1.Unix(1_000_000_000+s.RV, 0)
		n.DeletionTimestamp = &ts
		s.PutPod(n, lag)
	case "replicas":
		var d int32
		fmt.Sscanf(arg, "%d", &d)
		return editSet(func(x *asv1.StatefulSet) { r := *x.Spec.Replicas + d; x.Spec.Replicas = &r }, true)
	case "slot+", "slot-":
		var k int32
		fmt.Sscanf(arg, "%d", &k)
		return editSet(func(x *asv1.StatefulSet) {
			cur := parseSlots(x.Annotations["delete-slots"])
			if f[0] == "slot+" {
				cur[k] = true
			} else {
				delete(cur, k)
			}
			if x.Annotations == nil {
				x.Annotations = map[string]string{}
			}
			if len(cur) == 0 {
				delete(x.Annotations, "delete-slots")
				if len(x.Annotations) == 0 {
					x.Annotations = nil
				}
				return
			}
			x.Annotations["delete-slots"] = fmtSlots(cur)
		}, false)
	case "scalein":
		// the documented scale-in at ordinal k: add the slot and decrement replicas in one edit
		var k int32
		fmt.Sscanf(arg, "%d", &k)
		return editSet(func(x *asv1.StatefulSet) {
			cur := parseSlots(x.Annotations["delete-slots"])
			cur[k] = true
			if x.Annotations == nil {
				x.Annotations = map[string]string{}
			}
			x.Annotations["delete-slots"] = fmtSlots(cur)
			r := *x.Spec.Replicas - 1
			x.Spec.Replicas = &r
		}, true)
	case "template":
		return editSet(func(x *asv1.StatefulSet) { x.Spec.Template.Spec.Containers[0].Image = arg }, true)
	case "partition":
		var k int32
		fmt.Sscanf(arg, "%d", &k)
		return editSet(func(x *asv1.StatefulSet) {
			if x.Spec.UpdateStrategy.RollingUpdate == nil {
				x.Spec.UpdateStrategy.RollingUpdate = &asv1.RollingUpdateStatefulSetStrategy{}
			}
			x.Spec.UpdateStrategy.RollingUpdate.Partition = &k
		}, true)
	case "pause":
		return editSet(func(x *asv1.StatefulSet) {
			if x.Annotations == nil {
				x.Annotations = map[string]string{}
			}
			if arg == "on" {
				x.Annotations["paused-reconcile"] = "true"
			} else {
				delete(x.Annotations, "paused-reconcile")
				if len(x.Annotations) == 0 {
					x.Annotations = nil
				}
			}
		}, false)
	case "label":
		return editSet(func(x *asv1.StatefulSet) {
			if x.Labels == nil {
				x.Labels = map[string]string{}
			}
			x.Labels["team"] = arg
		}, false)
	case "markdeleted":
		return editSet(func(x *asv1.StatefulSet) { ts := metav1.Unix(1_000_000_000+s.RV, 0); x.DeletionTimestamp = &ts }, false)
	default:
		return fmt.Errorf("unknown transition %q", label)
	}
	return nil
}

func parseSlots(v string) map[int32]bool {
	out := map[int32]bool{}
	v = strings.Trim(v, "[] ")
	if v == "" {
		return out
	}
	for _, p := range strings.Split(v, ",") {
		var k int32
		if _, err := fmt.Sscanf(strings.TrimSpace(p), "%d", &k); err == nil {
			out[k] = true
		}
	}
	return out
}

func fmtSlots(m map[int32]bool) string {
	var l []int
	for k := range m {
		l = append(l, int(k))
	}
	sort.Ints(l)
	var parts []string
	for _, k := range l {
		parts = append(parts, fmt.Sprint(k))
	}
	return "[" + strings.Join(parts, ",") + "]"
}

func stripOwner(refs []metav1.OwnerReference, uid string) []metav1.OwnerReference {
	var out []metav1.OwnerReference
	for _, r := range refs {
		if string(r.UID) != uid {
			out = append(out, r)
		}
	}
	return out
}

// GCProgress lists the pending garbage-collector orphaning steps for owner uid.
func GCProgress(s *State, uid string) []string {
	var out []string
	for _, n := range sortedKeys(s.API.Pods) {
		for _, r := range s.API.Pods[n].OwnerReferences {
			if string(r.UID) == uid {
				out = append(out, "gcorphan pods/"+n+" "+uid)
			}
		}
	}
	for _, n := range sortedKeys(s.API.Revs) {
		for _, r := range s.API.Revs[n].OwnerReferences {
			if string(r.UID) == uid {
				out = append(out, "gcorphan revs/"+n+" "+uid)
			}
		}
	}
	return out
}
