package world

import (
	"encoding/json"
	"flag"
	"fmt"
	"io"
	"os"
	"reflect"
	"runtime/debug"
	"sort"
	"strconv"
	"strings"
	"sync"
	"time"

	jsonpatch "github.com/evanphx/json-patch"
	asv1 "github.com/pingcap/advanced-statefulset/client/apis/apps/v1"
	pcfake "github.com/pingcap/advanced-statefulset/client/client/clientset/versioned/fake"
	pcinformers "github.com/pingcap/advanced-statefulset/client/client/informers/externalversions"
	pcappsinformers "github.com/pingcap/advanced-statefulset/client/client/informers/externalversions/apps/v1"
	"github.com/pingcap/advanced-statefulset/pkg/controller/statefulset"
	appsv1 "k8s.io/api/apps/v1"
	v1 "k8s.io/api/core/v1"
	apierrors "k8s.io/apimachinery/pkg/api/errors"
	metav1 "k8s.io/apimachinery/pkg/apis/meta/v1"
	"k8s.io/apimachinery/pkg/labels"
	"k8s.io/apimachinery/pkg/runtime"
	"k8s.io/apimachinery/pkg/runtime/schema"
	"k8s.io/apimachinery/pkg/types"
	utilruntime "k8s.io/apimachinery/pkg/util/runtime"
	"k8s.io/apimachinery/pkg/util/strategicpatch"
	"k8s.io/apimachinery/pkg/util/validation/field"
	kubeinformers "k8s.io/client-go/informers"
	coreinformers "k8s.io/client-go/informers/core/v1"
	kubefake "k8s.io/client-go/kubernetes/fake"
	corelisters "k8s.io/client-go/listers/core/v1"
	clienttesting "k8s.io/client-go/testing"
	"k8s.io/client-go/tools/cache"
	"k8s.io/client-go/util/retry"
	"k8s.io/klog/v2"
)

var initOnce sync.Once

// GlobalInit takes ownership of process-wide nondeterminism: no log output,
// no sleeping in retries, no 1 ms error throttle.
func GlobalInit() {
	initOnce.Do(func() {
		gc := 100
		if v, err := strconv.Atoi(os.Getenv("VERIF_GOGC")); err == nil {
			gc = v
		}
		debug.SetGCPercent(gc)
		fs := flag.NewFlagSet("klog", flag.ContinueOnError)
		klog.InitFlags(fs)
		fs.Set("logtostderr", "false")
		fs.Set("alsologtostderr", "false")
		fs.Set("stderrthreshold", "FATAL")
		klog.LogToStderr(false)
		klog.SetOutput(io.Discard)
		retry.DefaultRetry.Duration = 0
		retry.DefaultRetry.Jitter = 0
		retry.DefaultBackoff.Duration = 0
		retry.DefaultBackoff.Jitter = 0
		utilruntime.ErrorHandlers = []func(error){func(error) {}}
	})
}

// discardRecorder drops events (asynchronous, outside every property).
type discardRecorder struct{}

func (discardRecorder) Event(runtime.Object, string, string, string)                  {}
func (discardRecorder) Eventf(runtime.Object, string, string, string, ...interface{}) {}
func (discardRecorder) AnnotatedEventf(runtime.Object, map[string]string, string, string, string, ...interface{}) {
}

// Call is one API request issued while the world was active.
type Call struct {
	Verb      string // create|update|patch|delete|get|list
	Resource  string // pods|persistentvolumeclaims|controllerrevisions|statefulsets|bstatefulsets
	Sub       string // "" or "status"
	Name      string
	NS        string         // namespace of the request
	Key       string         `json:"-"` // map key of the target (name, namespace-qualified outside the default namespace)
	ID        string         // verb resource[/sub] name #n  (n-th occurrence in this reconcile)
	Obj       runtime.Object `json:"-"` // submitted object (create/update)
	Patch     string
	PatchType string                // patch body
	Selector  string                // list selector
	Target    runtime.Object        `json:"-"` // API object of that name just before the call (nil if absent)
	Result    runtime.Object        `json:"-"`
	Err       string                // "" on success, else the status reason / message
	ErrObj    error                 `json:"-"`
	Fault     string                // injected fault kind, if any
	Deleted   bool                  // delete calls: object removed at once (vs. graceful)
	Applied   bool                  // the call took effect in the API (even if its response was lost or the process died)
	DelOpts   *metav1.DeleteOptions `json:",omitempty"`
}

func (c *Call) IsWrite() bool { return c.Verb != "get" && c.Verb != "list" }
func (c *Call) OK() bool      { return c.ErrObj == nil }
func (c *Call) String() string {
	s := c.ID
	if c.Patch != "" {
		s += " patch=" + c.Patch
	}
	if c.Selector != "" {
		s += " sel=" + c.Selector
	}
	if c.Fault != "" {
		s += " FAULT=" + c.Fault
	}
	if c.Err != "" {
		s += " -> " + c.Err
	}
	return s
}

// Fault kinds (DESIGN.md 2.5).
const (
	FErr500   = "err500"
	FTimeout  = "timeoutApplied"
	FConflict = "conflict"
	// FConflictFresh: like conflict, and the informer caches have caught up with the foreign write by
	// the time the code re-reads them (what conflict-retry loops rely on)
	FConflictFresh = "conflictFresh"
	// FConflictPause: the write on the set conflicts because the user has just set the paused-reconcile annotation on
	// it (that edit is what moved the resourceVersion); the caches have caught up by the time the code re-reads
	FConflictPause = "conflictPause"
	FGone          = "gone"
	FExists        = "exists"
	// FExistsOther: the create answers AlreadyExists because somebody else created an object of that name in the
	// meantime, and theirs is not the same (another writer working from an older copy): replicas and labels differ
	FExistsOther = "existsOther"
	FCrashBefore = "crashBefore"
	FCrashAfter  = "crashAfter"
)

// FaultPlan maps call IDs to a fault kind.
type FaultPlan map[string]string

// CrashSentinel is the panic value used for injected crashes.
type CrashSentinel struct{ At string }

// HarnessError is raised (as a panic) when the controller does something the
// API model does not cover; it is never reported as a violation.
type HarnessError struct{ Msg string }

// World is one controller instance plus the API model it talks to.
type World struct {
	Kube *kubefake.Clientset
	PC   *pcfake.Clientset
	Ctrl *statefulset.StatefulSetController

	podInf, pvcInf cache.SharedIndexInformer
	setInf         cache.SharedIndexInformer

	PodHandlers []cache.ResourceEventHandler
	SetHandlers []cache.ResourceEventHandler

	S      *State
	Lag    int
	mu     sync.Mutex
	log    []*Call
	counts map[string]int
	faults FaultPlan
	// PVCLookupFail makes the claim lister fail for these claim names (lookup failure)
	PVCLookupFail map[string]bool
	lookupFailed  bool
	active        bool
}

type capPodInformer struct {
	coreinformers.PodInformer
	w *World
}

func (c capPodInformer) Informer() cache.SharedIndexInformer {
	return capInformer{c.PodInformer.Informer(), &c.w.PodHandlers}
}

type capSetInformer struct {
	pcappsinformers.StatefulSetInformer
	w *World
}

func (c capSetInformer) Informer() cache.SharedIndexInformer {
	return capInformer{c.StatefulSetInformer.Informer(), &c.w.SetHandlers}
}

type capPVCInformer struct {
	coreinformers.PersistentVolumeClaimInformer
	w *World
}

func (c capPVCInformer) Lister() corelisters.PersistentVolumeClaimLister {
	return failPVCLister{c.PersistentVolumeClaimInformer.Lister(), c.w}
}

type failPVCLister struct {
	corelisters.PersistentVolumeClaimLister
	w *World
}

func (l failPVCLister) PersistentVolumeClaims(ns string) corelisters.PersistentVolumeClaimNamespaceLister {
	return failPVCNSLister{l.PersistentVolumeClaimLister.PersistentVolumeClaims(ns), l.w}
}

type failPVCNSLister struct {
	corelisters.PersistentVolumeClaimNamespaceLister
	w *World
}

func (l failPVCNSLister) Get(name string) (*v1.PersistentVolumeClaim, error) {
	if l.w.PVCLookupFail[name] {
		l.w.lookupFailed = true
		return nil, apierrors.NewInternalError(fmt.Errorf("injected claim lookup failure"))
	}
	return l.PersistentVolumeClaimNamespaceLister.Get(name)
}

type capInformer struct {
	cache.SharedIndexInformer
	sink *[]cache.ResourceEventHandler
}

func (c capInformer) AddEventHandler(h cache.ResourceEventHandler) (cache.ResourceEventHandlerRegistration, error) {
	*c.sink = append(*c.sink, h)
	return c.SharedIndexInformer.AddEventHandler(h)
}

// New builds a world around a controller made by the real constructor.
func New() *World {
	GlobalInit()
	w := &World{S: NewState()}
	w.Kube = kubefake.NewSimpleClientset()
	w.PC = pcfake.NewSimpleClientset()
	w.Kube.Fake.ReactionChain = []clienttesting.Reactor{&clienttesting.SimpleReactor{Verb: "*", Resource: "*", Reaction: w.react}}
	w.PC.Fake.ReactionChain = []clienttesting.Reactor{&clienttesting.SimpleReactor{Verb: "*", Resource: "*", Reaction: w.react}}
	kf := kubeinformers.NewSharedInformerFactory(w.Kube, 0)
	pf := pcinformers.NewSharedInformerFactory(w.PC, 0)
	pods := kf.Core().V1().Pods()
	sets := pf.Apps().V1().StatefulSets()
	pvcs := kf.Core().V1().PersistentVolumeClaims()
	revs := kf.Apps().V1().ControllerRevisions()
	w.podInf, w.setInf, w.pvcInf = pods.Informer(), sets.Informer(), pvcs.Informer()
	w.Ctrl = statefulset.NewStatefulSetController(capPodInformer{pods, w}, capSetInformer{sets, w}, capPVCInformer{pvcs, w}, revs, w.Kube, w.PC)
	w.Ctrl.VerifSetRecorder(discardRecorder{})
	return w
}

// Load makes s the current state (the caller's copy is not modified later).
func (w *World) Load(s *State) {
	w.S = s.Clone()
	w.fillCaches()
}

// FillCaches makes the informer indexers show the current state's caches.
func (w *World) FillCaches() { w.fillCaches() }

func (w *World) fillCaches() {
	var l []interface{}
	for _, k := range sortedKeys(w.S.Cache.Pods) {
		l = append(l, w.S.Cache.Pods[k])
	}
	w.podInf.GetIndexer().Replace(l, "0")
	l = nil
	for _, k := range sortedKeys(w.S.Cache.Sets) {
		l = append(l, w.S.Cache.Sets[k])
	}
	w.setInf.GetIndexer().Replace(l, "0")
	l = nil
	for _, k := range sortedKeys(w.S.Cache.PVCs) {
		l = append(l, w.S.Cache.PVCs[k])
	}
	w.pvcInf.GetIndexer().Replace(l, "0")
}

// Rec is the record of one reconcile.
type Rec struct {
	Key    string
	Before *State
	Calls  []*Call
	Err    error
	Panic  interface{} // non-nil if the reconcile panicked (other than an injected crash)
	Stack  string
	Crash  bool // an injected crash unwound the reconcile
	After  *State
	// CacheMutated names cache objects the reconcile modified in place.
	CacheMutated []string
	Faults       FaultPlan
	// LookupFailed: an injected lister failure was hit during the reconcile.
	LookupFailed bool
}

func (r *Rec) Writes() []*Call {
	var out []*Call
	for _, c := range r.Calls {
		if c.IsWrite() {
			out = append(out, c)
		}
	}
	return out
}

// Begin starts logging API calls with the given fault plan; End stops and
// returns the log. They bracket any real code run against the world.
func (w *World) Begin(f FaultPlan) {
	w.mu.Lock()
	w.log = nil
	w.counts = map[string]int{}
	w.faults = f
	w.active = true
	w.mu.Unlock()
}

func (w *World) End() []*Call {
	w.mu.Lock()
	defer w.mu.Unlock()
	w.active = false
	l := w.log
	w.log = nil
	w.Kube.ClearActions()
	w.PC.ClearActions()
	return l
}

// Reconcile runs one real per-key reconcile on the current state.
func (w *World) Reconcile(key string, f FaultPlan) *Rec {
	w.fillCaches()
	rec := &Rec{Key: key, Before: w.S.Clone(), Faults: f}
	// copies to detect in-place mutation of cached objects
	type snap struct {
		name string
		live runtime.Object
		copy runtime.Object
	}
	var snaps []snap
	for k, p := range w.S.Cache.Pods {
		snaps = append(snaps, snap{"pod/" + k, p, p.DeepCopy()})
	}
	for k, p := range w.S.Cache.Sets {
		snaps = append(snaps, snap{"set/" + k, p, p.DeepCopy()})
	}
	for k, p := range w.S.Cache.PVCs {
		snaps = append(snaps, snap{"pvc/" + k, p, p.DeepCopy()})
	}
	w.Begin(f)
	w.lookupFailed = false
	func() {
		defer func() {
			if r := recover(); r != nil {
				if _, ok := r.(CrashSentinel); ok {
					rec.Crash = true
					return
				}
				if he, ok := r.(HarnessError); ok {
					panic(he)
				}
				rec.Panic = r
				rec.Stack = string(debug.Stack())
			}
		}()
		rec.Err = w.Ctrl.VerifSync(key)
	}()
	rec.Calls = w.End()
	rec.LookupFailed = w.lookupFailed
	for _, s := range snaps {
		if !reflect.DeepEqual(s.live, s.copy) {
			rec.CacheMutated = append(rec.CacheMutated, s.name)
		}
	}
	sort.Strings(rec.CacheMutated)
	if rec.Crash {
		// a restarted controller relists: caches are fresh
		w.S.SyncCaches()
	}
	rec.After = w.S.Clone()
	return rec
}

func jsonEqual(a, b runtime.Object) bool {
	x, _ := json.Marshal(a)
	y, _ := json.Marshal(b)
	return string(x) == string(y)
}

// ---------------- the API model ----------------

func (w *World) react(action clienttesting.Action) (bool, runtime.Object, error) {
	res := action.GetResource().Resource
	if res == "events" {
		switch a := action.(type) {
		case clienttesting.CreateAction:
			return true, a.GetObject(), nil
		default:
			return true, &v1.Event{}, nil
		}
	}
	w.mu.Lock()
	active := w.active
	w.mu.Unlock()
	if !active {
		panic(HarnessError{"API call outside Begin/End: " + action.GetVerb() + " " + res})
	}
	if res == "statefulsets" && action.GetResource().Group == "apps" {
		res = "bstatefulsets"
	}
	c := &Call{Verb: action.GetVerb(), Resource: res, Sub: action.GetSubresource()}
	switch a := action.(type) {
	case clienttesting.CreateAction:
		c.Obj = a.GetObject().DeepCopyObject()
		c.Name = metaOf(c.Obj).GetName()
	case clienttesting.UpdateAction:
		c.Obj = a.GetObject().DeepCopyObject()
		c.Name = metaOf(c.Obj).GetName()
	case clienttesting.PatchAction:
		c.Name = a.GetName()
		c.Patch = string(a.GetPatch())
		c.PatchType = string(a.GetPatchType())
		if a.GetPatchType() != types.StrategicMergePatchType && a.GetPatchType() != types.MergePatchType {
			panic(HarnessError{"unmodelled patch type " + string(a.GetPatchType())})
		}
	case clienttesting.DeleteActionImpl:
		c.Name = a.GetName()
		o := a.DeleteOptions
		c.DelOpts = &o
	case clienttesting.GetAction:
		c.Name = a.GetName()
	case clienttesting.ListAction:
		c.Selector = a.GetListRestrictions().Labels.String()
	default:
		panic(HarnessError{fmt.Sprintf("unmodelled action %T", action)})
	}
	c.NS = action.GetNamespace()
	c.Key = ObjKey(c.NS, c.Name)
	base := c.Verb + " " + c.Resource
	if c.Sub != "" {
		base += "/" + c.Sub
	}
	if c.Name != "" {
		base += " " + c.Key
	} else if c.NS != NS && c.NS != "" {
		base += " ns=" + c.NS
	}
	if c.Selector != "" {
		base += " [" + c.Selector + "]"
	}
	w.mu.Lock()
	n := w.counts[base]
	w.counts[base] = n + 1
	c.ID = fmt.Sprintf("%s #%d", base, n)
	w.log = append(w.log, c)
	fault := w.faults[c.ID]
	w.mu.Unlock()
	c.Fault = fault
	c.Target = w.lookup(c.Resource, c.Key)

	switch fault {
	case FCrashBefore:
		c.Err = "crash"
		panic(CrashSentinel{c.ID})
	case FErr500:
		return w.finish(c, nil, apierrors.NewInternalError(fmt.Errorf("injected")))
	case FConflict:
		w.foreignTouch(c.Resource, c.Key)
	case FConflictFresh:
		w.foreignTouch(c.Resource, c.Key)
		w.S.SyncCaches()
		w.fillCaches()
	case FConflictPause:
		if cur := w.S.API.Sets[c.Key]; c.Resource == "statefulsets" && cur != nil {
			n := cur.DeepCopy()
			if n.Annotations == nil {
				n.Annotations = map[string]string{}
			}
			n.Annotations["paused-reconcile"] = "true"
			n.ResourceVersion = w.S.nextRV()
			w.S.API.Sets[c.Key] = n
			w.S.SyncCaches()
			w.fillCaches()
		}
	case FGone:
		w.foreignRemove(c.Resource, c.Key)
	case FExists:
		if c.Verb == "create" {
			w.apply(&Call{Verb: "create", Resource: c.Resource, Name: c.Name, Key: c.Key, NS: c.NS, Obj: c.Obj.DeepCopyObject()}, action)
		}
	case FExistsOther:
		if set, ok := c.Obj.(*asv1.StatefulSet); ok && c.Verb == "create" {
			other := set.DeepCopy()
			r := int32(1)
			if other.Spec.Replicas != nil {
				r = *other.Spec.Replicas + 1
			}
			other.Spec.Replicas = &r
			if len(other.Spec.Template.Spec.Containers) > 0 {
				other.Spec.Template.Spec.Containers[0].Image += "-older"
			}
			w.apply(&Call{Verb: "create", Resource: c.Resource, Name: c.Name, Key: c.Key, NS: c.NS, Obj: other}, action)
		}
	}
	obj, err := w.apply(c, action)
	c.Applied = err == nil
	switch fault {
	case FTimeout:
		return w.finish(c, nil, apierrors.NewTimeoutError("injected: response lost", 0))
	case FCrashAfter:
		c.Err = "crash"
		panic(CrashSentinel{c.ID})
	}
	return w.finish(c, obj, err)
}

func (w *World) finish(c *Call, obj runtime.Object, err error) (bool, runtime.Object, error) {
	c.ErrObj = err
	if err != nil {
		c.Err = string(apierrors.ReasonForError(err))
		if c.Err == "" {
			c.Err = err.Error()
		}
		// typed clients dereference the returned object: hand out an empty one
		return true, emptyFor(c.Resource, c.Verb), err
	}
	c.Result = obj
	if obj == nil {
		return true, emptyFor(c.Resource, c.Verb), nil
	}
	return true, obj.DeepCopyObject(), nil
}

func emptyFor(res, verb string) runtime.Object {
	if verb == "list" {
		switch res {
		case "pods":
			return &v1.PodList{}
		case "persistentvolumeclaims":
			return &v1.PersistentVolumeClaimList{}
		case "controllerrevisions":
			return &appsv1.ControllerRevisionList{}
		case "statefulsets":
			return &asv1.StatefulSetList{}
		case "bstatefulsets":
			return &appsv1.StatefulSetList{}
		}
	}
	switch res {
	case "pods":
		return &v1.Pod{}
	case "persistentvolumeclaims":
		return &v1.PersistentVolumeClaim{}
	case "controllerrevisions":
		return &appsv1.ControllerRevision{}
	case "statefulsets":
		return &asv1.StatefulSet{}
	case "bstatefulsets":
		return &appsv1.StatefulSet{}
	}
	panic(HarnessError{"unmodelled resource " + res})
}

func metaOf(o runtime.Object) metav1.Object {
	m, ok := o.(metav1.Object)
	if !ok {
		panic(HarnessError{fmt.Sprintf("object without metadata %T", o)})
	}
	return m
}

func (w *World) lookup(res, name string) runtime.Object {
	switch res {
	case "pods":
		if o, ok := w.S.API.Pods[name]; ok {
			return o
		}
	case "persistentvolumeclaims":
		if o, ok := w.S.API.PVCs[name]; ok {
			return o
		}
	case "controllerrevisions":
		if o, ok := w.S.API.Revs[name]; ok {
			return o
		}
	case "statefulsets":
		if o, ok := w.S.API.Sets[name]; ok {
			return o
		}
	case "bstatefulsets":
		if o, ok := w.S.API.BSets[name]; ok {
			return o
		}
	}
	return nil
}

func (w *World) store(res string, o runtime.Object) {
	switch res {
	case "pods":
		w.S.PutPod(o.(*v1.Pod), w.Lag)
	case "persistentvolumeclaims":
		w.S.PutPVC(o.(*v1.PersistentVolumeClaim), w.Lag)
	case "controllerrevisions":
		w.S.PutRev(o.(*appsv1.ControllerRevision))
	case "statefulsets":
		w.S.PutSet(o.(*asv1.StatefulSet), w.Lag)
	case "bstatefulsets":
		w.S.API.BSets[metaOf(o).GetName()] = o.(*appsv1.StatefulSet)
	}
}

func (w *World) remove(res, name string) {
	switch res {
	case "pods":
		w.S.DelPod(name, w.Lag)
	case "persistentvolumeclaims":
		delete(w.S.API.PVCs, name)
		w.S.notify(CacheEvent{Kind: "pvcs", Name: name}, w.Lag)
	case "controllerrevisions":
		w.S.DelRev(name)
	case "statefulsets":
		w.S.DelSet(name, w.Lag)
	case "bstatefulsets":
		delete(w.S.API.BSets, name)
	}
}

// foreignTouch bumps the resourceVersion of an object (a concurrent writer).
func (w *World) foreignTouch(res, name string) {
	o := w.lookup(res, name)
	if o == nil {
		return
	}
	n := o.DeepCopyObject()
	metaOf(n).SetResourceVersion(w.S.nextRV())
	w.store(res, n)
}

func (w *World) foreignRemove(res, name string) {
	if w.lookup(res, name) != nil {
		w.remove(res, name)
	}
}

func gr(res string) schema.GroupResource {
	switch res {
	case "controllerrevisions", "bstatefulsets":
		return schema.GroupResource{Group: "apps", Resource: strings.TrimPrefix(res, "b")}
	case "statefulsets":
		return schema.GroupResource{Group: asv1.GroupName, Resource: res}
	}
	return schema.GroupResource{Resource: res}
}

func (w *World) stamp(m metav1.Object) time.Time {
	rv := w.S.nextRV()
	m.SetResourceVersion(rv)
	return time.Unix(1_000_000_000+w.S.RV, 0).UTC()
}

func (w *World) apply(c *Call, action clienttesting.Action) (runtime.Object, error) {
	cur := w.lookup(c.Resource, c.Key)
	switch c.Verb {
	case "get":
		if cur == nil {
			return nil, apierrors.NewNotFound(gr(c.Resource), c.Name)
		}
		return cur, nil
	case "list":
		return w.list(c, action.(clienttesting.ListAction))
	case "create":
		if c.Name == "" {
			panic(HarnessError{"create without name"})
		}
		if cur != nil {
			return nil, apierrors.NewAlreadyExists(gr(c.Resource), c.Name)
		}
		n := c.Obj.DeepCopyObject()
		m := metaOf(n)
		ts := w.stamp(m)
		if c.Resource == "statefulsets" || m.GetUID() == "" {
			m.SetUID(types.UID(fmt.Sprintf("uid-%s-%d", c.Name, w.S.RV)))
		}
		m.SetCreationTimestamp(metav1.NewTime(ts))
		m.SetNamespace(action.GetNamespace())
		if m.GetGeneration() == 0 && (c.Resource == "statefulsets" || c.Resource == "bstatefulsets") {
			m.SetGeneration(1)
		}
		if p, ok := n.(*v1.Pod); ok {
			if p.Status.Phase == "" {
				p.Status.Phase = v1.PodPending
			}
		}
		w.store(c.Resource, n)
		return n, nil
	case "update":
		if cur == nil {
			return nil, apierrors.NewNotFound(gr(c.Resource), c.Name)
		}
		n := c.Obj.DeepCopyObject()
		m := metaOf(n)
		if rv := m.GetResourceVersion(); rv != "" && rv != metaOf(cur).GetResourceVersion() {
			return nil, apierrors.NewConflict(gr(c.Resource), c.Name, fmt.Errorf("the object has been modified"))
		}
		if uid := m.GetUID(); uid != "" && uid != metaOf(cur).GetUID() {
			return nil, apierrors.NewConflict(gr(c.Resource), c.Name, fmt.Errorf("uid precondition failed"))
		}
		switch c.Resource {
		case "pods":
			if c.Sub != "" {
				panic(HarnessError{"unmodelled pod subresource " + c.Sub})
			}
			np, op := n.(*v1.Pod), cur.(*v1.Pod)
			// pod specs are immutable but for the container images (and a few fields no code here touches): an update
			// that changes anything else, e.g. spec.volumes, is refused
			if !podSpecUpdateAllowed(&op.Spec, &np.Spec) {
				return nil, apierrors.NewInvalid(schema.GroupKind{Kind: "Pod"}, c.Name, field.ErrorList{field.Forbidden(field.NewPath("spec"), "pod updates may not change fields other than `spec.containers[*].image`, `spec.initContainers[*].image`, `spec.activeDeadlineSeconds`, `spec.tolerations` (only additions to existing tolerations) or `spec.terminationGracePeriodSeconds`")})
			}
			np.Status = *op.Status.DeepCopy()
			np.UID, np.CreationTimestamp, np.DeletionTimestamp = op.UID, op.CreationTimestamp, op.DeletionTimestamp
		case "statefulsets":
			ns, os := n.(*asv1.StatefulSet), cur.(*asv1.StatefulSet)
			if c.Sub == "status" {
				st := ns.Status
				ns = os.DeepCopy()
				ns.Status = *st.DeepCopy()
				n = ns
			} else if c.Sub == "" {
				ns.Status = *os.Status.DeepCopy()
				ns.UID, ns.CreationTimestamp, ns.DeletionTimestamp = os.UID, os.CreationTimestamp, os.DeletionTimestamp
				ns.Generation = os.Generation
				if !jsonEqual(&asv1.StatefulSet{Spec: ns.Spec}, &asv1.StatefulSet{Spec: os.Spec}) {
					ns.Generation++
				}
			} else {
				panic(HarnessError{"unmodelled statefulset subresource " + c.Sub})
			}
		case "controllerrevisions":
			nr, or := n.(*appsv1.ControllerRevision), cur.(*appsv1.ControllerRevision)
			nr.UID, nr.CreationTimestamp = or.UID, or.CreationTimestamp
		case "bstatefulsets", "persistentvolumeclaims":
		}
		w.stamp(metaOf(n))
		w.store(c.Resource, n)
		return n, nil
	case "patch":
		if cur == nil {
			return nil, apierrors.NewNotFound(gr(c.Resource), c.Name)
		}
		return w.patch(c, cur)
	case "delete":
		if cur == nil {
			return nil, apierrors.NewNotFound(gr(c.Resource), c.Name)
		}
		if c.DelOpts != nil && c.DelOpts.Preconditions != nil && c.DelOpts.Preconditions.UID != nil &&
			*c.DelOpts.Preconditions.UID != metaOf(cur).GetUID() {
			return nil, apierrors.NewConflict(gr(c.Resource), c.Name, fmt.Errorf("uid precondition failed"))
		}
		if p, ok := cur.(*v1.Pod); ok {
			if p.Status.Phase == v1.PodFailed || p.Status.Phase == v1.PodSucceeded {
				c.Deleted = true
				w.remove(c.Resource, c.Key)
				return nil, nil
			}
			if p.DeletionTimestamp != nil {
				return nil, nil
			}
			n := p.DeepCopy()
			ts := metav1.NewTime(w.stamp(n))
			n.DeletionTimestamp = &ts
			w.store(c.Resource, n)
			return nil, nil
		}
		c.Deleted = true
		w.remove(c.Resource, c.Key)
		return nil, nil
	}
	panic(HarnessError{"unmodelled verb " + c.Verb})
}

func (w *World) patch(c *Call, cur runtime.Object) (runtime.Object, error) {
	var probe struct {
		Metadata struct {
			UID string `json:"uid"`
		} `json:"metadata"`
	}
	if err := json.Unmarshal([]byte(c.Patch), &probe); err != nil {
		return nil, apierrors.NewBadRequest("bad patch: " + err.Error())
	}
	if probe.Metadata.UID != "" && types.UID(probe.Metadata.UID) != metaOf(cur).GetUID() {
		return nil, apierrors.NewInvalid(schema.GroupKind{Kind: c.Resource}, c.Name, nil)
	}
	orig, _ := json.Marshal(cur)
	var n runtime.Object
	switch c.Resource {
	case "pods":
		n = &v1.Pod{}
	case "controllerrevisions":
		n = &appsv1.ControllerRevision{}
	case "statefulsets":
		n = &asv1.StatefulSet{}
	default:
		panic(HarnessError{"unmodelled patch on " + c.Resource})
	}
	var out []byte
	var err error
	if c.PatchType == string(types.MergePatchType) || c.Resource == "statefulsets" {
		// custom resources know no strategic merge; a JSON merge patch writes what it names and leaves the rest
		out, err = jsonpatch.MergePatch(orig, []byte(c.Patch))
	} else {
		out, err = strategicpatch.StrategicMergePatch(orig, []byte(c.Patch), n)
	}
	if err != nil {
		return nil, apierrors.NewBadRequest("patch failed: " + err.Error())
	}
	if err := json.Unmarshal(out, n); err != nil {
		return nil, apierrors.NewBadRequest("patch result: " + err.Error())
	}
	ctrl := 0
	for _, r := range metaOf(n).GetOwnerReferences() {
		if r.Controller != nil && *r.Controller {
			ctrl++
		}
	}
	if ctrl > 1 {
		return nil, apierrors.NewInvalid(schema.GroupKind{Kind: c.Resource}, c.Name, nil)
	}
	w.stamp(metaOf(n))
	w.store(c.Resource, n)
	return n, nil
}

func (w *World) list(c *Call, a clienttesting.ListAction) (runtime.Object, error) {
	sel := a.GetListRestrictions().Labels
	if sel == nil {
		sel = labels.Everything()
	}
	switch c.Resource {
	case "controllerrevisions":
		l := &appsv1.ControllerRevisionList{}
		for _, k := range sortedKeys(w.S.API.Revs) {
			if r := w.S.API.Revs[k]; sel.Matches(labels.Set(r.Labels)) && nsMatch(c.NS, r.Namespace) {
				l.Items = append(l.Items, *r.DeepCopy())
			}
		}
		return l, nil
	case "pods":
		l := &v1.PodList{}
		for _, k := range sortedKeys(w.S.API.Pods) {
			if r := w.S.API.Pods[k]; sel.Matches(labels.Set(r.Labels)) && nsMatch(c.NS, r.Namespace) {
				l.Items = append(l.Items, *r.DeepCopy())
			}
		}
		return l, nil
	case "statefulsets":
		l := &asv1.StatefulSetList{}
		for _, k := range sortedKeys(w.S.API.Sets) {
			if r := w.S.API.Sets[k]; sel.Matches(labels.Set(r.Labels)) && nsMatch(c.NS, r.Namespace) {
				l.Items = append(l.Items, *r.DeepCopy())
			}
		}
		return l, nil
	}
	panic(HarnessError{"unmodelled list on " + c.Resource})
}

// nsMatch: a namespaced request sees only objects of its namespace ("" = all namespaces).
func nsMatch(reqNS, objNS string) bool {
	if reqNS == "" {
		return true
	}
	if objNS == "" {
		objNS = NS
	}
	return reqNS == objNS
}

// podSpecUpdateAllowed: the new spec equals the old one once container images are disregarded.
func podSpecUpdateAllowed(old, new *v1.PodSpec) bool {
	a, b := old.DeepCopy(), new.DeepCopy()
	for _, sp := range []*v1.PodSpec{a, b} {
		for i := range sp.Containers {
			sp.Containers[i].Image = ""
		}
		for i := range sp.InitContainers {
			sp.InitContainers[i].Image = ""
		}
	}
	x, _ := json.Marshal(a)
	y, _ := json.Marshal(b)
	return string(x) == string(y)
}
