// Package world is the closed world around the real controller: an API-server
// model, hand-filled informer caches, an environment and a call log.
package world

import (
	"crypto/sha256"
	"encoding/json"
	"fmt"
	"sort"
	"strings"

	asv1 "github.com/pingcap/advanced-statefulset/client/apis/apps/v1"
	appsv1 "k8s.io/api/apps/v1"
	v1 "k8s.io/api/core/v1"
	metav1 "k8s.io/apimachinery/pkg/apis/meta/v1"
)

const NS = "default"

// Objects is one view of the cluster (API truth, or what the caches show).
// Objects stored here are immutable: every writer replaces the pointer.
type Objects struct {
	Sets map[string]*asv1.StatefulSet
	Pods map[string]*v1.Pod
	PVCs map[string]*v1.PersistentVolumeClaim
	Revs map[string]*appsv1.ControllerRevision
	// built-in StatefulSets (only used by the upgrade harnesses)
	BSets map[string]*appsv1.StatefulSet
}

func NewObjects() Objects {
	return Objects{
		Sets:  map[string]*asv1.StatefulSet{},
		Pods:  map[string]*v1.Pod{},
		PVCs:  map[string]*v1.PersistentVolumeClaim{},
		Revs:  map[string]*appsv1.ControllerRevision{},
		BSets: map[string]*appsv1.StatefulSet{},
	}
}

func (o Objects) Clone() Objects {
	n := NewObjects()
	for k, v := range o.Sets {
		n.Sets[k] = v
	}
	for k, v := range o.Pods {
		n.Pods[k] = v
	}
	for k, v := range o.PVCs {
		n.PVCs[k] = v
	}
	for k, v := range o.Revs {
		n.Revs[k] = v
	}
	for k, v := range o.BSets {
		n.BSets[k] = v
	}
	return n
}

// CacheEvent is one undelivered informer notification.
type CacheEvent struct {
	Kind string // "sets" | "pods" | "pvcs"
	Name string
	// exactly one of the following is set; all nil = deletion
	Set *asv1.StatefulSet
	Pod *v1.Pod
	PVC *v1.PersistentVolumeClaim
}

// State is everything that persists between transitions.
type State struct {
	API     Objects
	Cache   Objects      // Sets, Pods, PVCs as the informers show them
	Pending []CacheEvent // writes not yet visible in the caches, oldest first
	RV      int64        // resourceVersion / uid / logical clock counter
}

func NewState() *State {
	return &State{API: NewObjects(), Cache: NewObjects(), RV: 100}
}

func (s *State) Clone() *State {
	n := &State{API: s.API.Clone(), Cache: s.Cache.Clone(), RV: s.RV}
	n.Pending = append([]CacheEvent(nil), s.Pending...)
	return n
}

// SyncCaches makes the caches show API truth and drops pending events.
func (s *State) SyncCaches() {
	s.Cache = NewObjects()
	for k, v := range s.API.Sets {
		s.Cache.Sets[k] = v
	}
	for k, v := range s.API.Pods {
		s.Cache.Pods[k] = v
	}
	for k, v := range s.API.PVCs {
		s.Cache.PVCs[k] = v
	}
	s.Pending = nil
}

// Deliver applies the oldest pending event of kind (or of any kind if "").
func (s *State) Deliver(kind string) bool {
	for i, e := range s.Pending {
		if kind != "" && e.Kind != kind {
			continue
		}
		s.applyEvent(e)
		s.Pending = append(append([]CacheEvent(nil), s.Pending[:i]...), s.Pending[i+1:]...)
		return true
	}
	return false
}

func (s *State) applyEvent(e CacheEvent) {
	switch e.Kind {
	case "sets":
		if e.Set == nil {
			delete(s.Cache.Sets, e.Name)
		} else {
			s.Cache.Sets[e.Name] = e.Set
		}
	case "pods":
		if e.Pod == nil {
			delete(s.Cache.Pods, e.Name)
		} else {
			s.Cache.Pods[e.Name] = e.Pod
		}
	case "pvcs":
		if e.PVC == nil {
			delete(s.Cache.PVCs, e.Name)
		} else {
			s.Cache.PVCs[e.Name] = e.PVC
		}
	}
}

// CachesCurrent reports whether nothing is pending.
func (s *State) CachesCurrent() bool { return len(s.Pending) == 0 }

func (s *State) nextRV() string {
	s.RV++
	return fmt.Sprint(s.RV)
}

// ---- mutation helpers used by the API model and the environment ----

func (s *State) notify(e CacheEvent, lag int) {
	s.Pending = append(s.Pending, e)
	for len(s.Pending) > lag {
		s.Deliver("")
	}
}

// ObjKey is the map key of an object: its name, prefixed by the namespace when it is not the default one.
func ObjKey(ns, name string) string {
	if ns == "" || ns == NS {
		return name
	}
	return ns + "/" + name
}

func (s *State) PutPod(p *v1.Pod, lag int) {
	k := ObjKey(p.Namespace, p.Name)
	s.API.Pods[k] = p
	s.notify(CacheEvent{Kind: "pods", Name: k, Pod: p}, lag)
}
func (s *State) DelPod(name string, lag int) {
	delete(s.API.Pods, name)
	s.notify(CacheEvent{Kind: "pods", Name: name}, lag)
}
func (s *State) PutSet(p *asv1.StatefulSet, lag int) {
	s.API.Sets[p.Name] = p
	s.notify(CacheEvent{Kind: "sets", Name: p.Name, Set: p}, lag)
}
func (s *State) DelSet(name string, lag int) {
	delete(s.API.Sets, name)
	s.notify(CacheEvent{Kind: "sets", Name: name}, lag)
}
func (s *State) PutPVC(p *v1.PersistentVolumeClaim, lag int) {
	k := ObjKey(p.Namespace, p.Name)
	s.API.PVCs[k] = p
	s.notify(CacheEvent{Kind: "pvcs", Name: k, PVC: p}, lag)
}
func (s *State) PutRev(r *appsv1.ControllerRevision) { s.API.Revs[ObjKey(r.Namespace, r.Name)] = r }
func (s *State) DelRev(name string)                  { delete(s.API.Revs, name) }

// ---- canonical key ----

func ownerDesc(refs []metav1.OwnerReference) string {
	var parts []string
	for _, r := range refs {
		c := "-"
		if r.Controller != nil && *r.Controller {
			c = "C"
		}
		parts = append(parts, fmt.Sprintf("%s/%s/%s/%s/%s", r.APIVersion, r.Kind, r.Name, r.UID, c))
	}
	sort.Strings(parts)
	return strings.Join(parts, ",")
}

func mapDesc(m map[string]string) string {
	keys := make([]string, 0, len(m))
	for k := range m {
		keys = append(keys, k)
	}
	sort.Strings(keys)
	var b strings.Builder
	for _, k := range keys {
		b.WriteString(k)
		b.WriteByte('=')
		b.WriteString(m[k])
		b.WriteByte(';')
	}
	return b.String()
}

func podReady(p *v1.Pod) bool {
	for _, c := range p.Status.Conditions {
		if c.Type == v1.PodReady {
			return c.Status == v1.ConditionTrue
		}
	}
	return false
}

func podDesc(p *v1.Pod) string {
	var vols []string
	for _, v := range p.Spec.Volumes {
		c := ""
		if v.PersistentVolumeClaim != nil {
			c = v.PersistentVolumeClaim.ClaimName
		}
		vols = append(vols, v.Name+">"+c)
	}
	sort.Strings(vols)
	img := ""
	if len(p.Spec.Containers) > 0 {
		img = p.Spec.Containers[0].Image
	}
	return fmt.Sprintf("pod %s L[%s] O[%s] term=%v ph=%s rdy=%v vols=%v img=%s host=%s sub=%s",
		ObjKey(p.Namespace, p.Name), mapDesc(p.Labels), ownerDesc(p.OwnerReferences), p.DeletionTimestamp != nil,
		p.Status.Phase, podReady(p), vols, img, p.Spec.Hostname, p.Spec.Subdomain)
}

func setDesc(s *asv1.StatefulSet) string {
	spec, _ := json.Marshal(s.Spec)
	st := s.Status
	// an unset collision count is a count of zero to every reader (the controller writes 0 with its first status
	// write and does not consider the difference a reason to write)
	cc := int32(0)
	if st.CollisionCount != nil {
		cc = *st.CollisionCount
	}
	// the controller only copies generation into the status and tests generation > observedGeneration
	delta := s.Generation - st.ObservedGeneration
	if delta > 1 {
		delta = 1
	}
	if delta < -1 {
		delta = -1
	}
	return fmt.Sprintf("set %s uid=%s A[%s] L[%s] term=%v gen-obs=%d spec=%s st=%d/%d/%d/%d cur=%s upd=%s cc=%d",
		s.Name, s.UID, mapDesc(s.Annotations), mapDesc(s.Labels), s.DeletionTimestamp != nil,
		delta, spec, st.Replicas, st.ReadyReplicas, st.CurrentReplicas, st.UpdatedReplicas,
		st.CurrentRevision, st.UpdateRevision, cc)
}

func pvcDesc(p *v1.PersistentVolumeClaim) string {
	return fmt.Sprintf("pvc %s L[%s]", p.Name, mapDesc(p.Labels))
}

// revRanks returns name -> rank in (revision, creation, name) order.
func revRanks(revs map[string]*appsv1.ControllerRevision) map[string]int {
	l := make([]*appsv1.ControllerRevision, 0, len(revs))
	for _, r := range revs {
		l = append(l, r)
	}
	sort.Slice(l, func(i, j int) bool {
		if l[i].Revision != l[j].Revision {
			return l[i].Revision < l[j].Revision
		}
		if !l[i].CreationTimestamp.Equal(&l[j].CreationTimestamp) {
			return l[i].CreationTimestamp.Before(&l[j].CreationTimestamp)
		}
		return l[i].Name < l[j].Name
	})
	out := map[string]int{}
	for i, r := range l {
		out[r.Name] = i
	}
	return out
}

func (o Objects) desc(withRevs bool) []string {
	var lines []string
	for _, s := range o.Sets {
		lines = append(lines, setDesc(s))
	}
	for _, p := range o.Pods {
		lines = append(lines, podDesc(p))
	}
	for _, p := range o.PVCs {
		lines = append(lines, pvcDesc(p))
	}
	if withRevs {
		ranks := revRanks(o.Revs)
		for _, r := range o.Revs {
			h := sha256.Sum256(r.Data.Raw)
			lines = append(lines, fmt.Sprintf("rev %s rank=%d L[%s] O[%s] data=%x", r.Name, ranks[r.Name],
				mapDesc(r.Labels), ownerDesc(r.OwnerReferences), h[:6]))
		}
		for _, b := range o.BSets {
			lines = append(lines, "bset "+b.Name)
		}
	}
	sort.Strings(lines)
	return lines
}

// Describe returns the canonical, human-readable projection of the state.
// It keeps everything the controller can branch on and drops timestamps,
// absolute resourceVersions, absolute revision numbers and generations, and
// pod/claim UIDs (DESIGN.md Appendix B).
func (s *State) Describe() string {
	var b strings.Builder
	b.WriteString("API\n")
	for _, l := range s.API.desc(true) {
		b.WriteString(l)
		b.WriteByte('\n')
	}
	if !s.cacheEqualsAPI() {
		b.WriteString("CACHE\n")
		for _, l := range s.Cache.desc(false) {
			b.WriteString(l)
			b.WriteByte('\n')
		}
		b.WriteString("PENDING\n")
		for _, e := range s.Pending {
			switch {
			case e.Set != nil:
				b.WriteString(setDesc(e.Set))
			case e.Pod != nil:
				b.WriteString(podDesc(e.Pod))
			case e.PVC != nil:
				b.WriteString(pvcDesc(e.PVC))
			default:
				b.WriteString("del " + e.Kind + " " + e.Name)
			}
			b.WriteByte('\n')
		}
	}
	return b.String()
}

func (s *State) cacheEqualsAPI() bool {
	if len(s.Pending) != 0 || len(s.Cache.Sets) != len(s.API.Sets) || len(s.Cache.Pods) != len(s.API.Pods) || len(s.Cache.PVCs) != len(s.API.PVCs) {
		return false
	}
	for k, v := range s.API.Sets {
		if s.Cache.Sets[k] != v {
			return false
		}
	}
	for k, v := range s.API.Pods {
		if s.Cache.Pods[k] != v {
			return false
		}
	}
	for k, v := range s.API.PVCs {
		if s.Cache.PVCs[k] != v {
			return false
		}
	}
	return true
}

// Key is the 128-bit canonical key of the state.
type Key [16]byte

func (s *State) Key() Key {
	h := sha256.Sum256([]byte(s.Describe()))
	var k Key
	copy(k[:], h[:16])
	return k
}

// ---- (de)serialisation for replay artefacts ----

type stateJSON struct {
	APISets    []*asv1.StatefulSet
	APIPods    []*v1.Pod
	APIPVCs    []*v1.PersistentVolumeClaim
	APIRevs    []*appsv1.ControllerRevision
	APIBSets   []*appsv1.StatefulSet
	CacheSets  []*asv1.StatefulSet
	CachePods  []*v1.Pod
	CachePVCs  []*v1.PersistentVolumeClaim
	Pending    []CacheEvent
	RV         int64
	CacheIsAPI bool
}

func (s *State) MarshalJSON() ([]byte, error) {
	j := stateJSON{RV: s.RV, CacheIsAPI: s.cacheEqualsAPI()}
	for _, k := range sortedKeys(s.API.Sets) {
		j.APISets = append(j.APISets, s.API.Sets[k])
	}
	for _, k := range sortedKeys(s.API.Pods) {
		j.APIPods = append(j.APIPods, s.API.Pods[k])
	}
	for _, k := range sortedKeys(s.API.PVCs) {
		j.APIPVCs = append(j.APIPVCs, s.API.PVCs[k])
	}
	for _, k := range sortedKeys(s.API.Revs) {
		j.APIRevs = append(j.APIRevs, s.API.Revs[k])
	}
	for _, k := range sortedKeys(s.API.BSets) {
		j.APIBSets = append(j.APIBSets, s.API.BSets[k])
	}
	if !j.CacheIsAPI {
		for _, k := range sortedKeys(s.Cache.Sets) {
			j.CacheSets = append(j.CacheSets, s.Cache.Sets[k])
		}
		for _, k := range sortedKeys(s.Cache.Pods) {
			j.CachePods = append(j.CachePods, s.Cache.Pods[k])
		}
		for _, k := range sortedKeys(s.Cache.PVCs) {
			j.CachePVCs = append(j.CachePVCs, s.Cache.PVCs[k])
		}
		j.Pending = s.Pending
	}
	return json.Marshal(j)
}

func (s *State) UnmarshalJSON(b []byte) error {
	var j stateJSON
	if err := json.Unmarshal(b, &j); err != nil {
		return err
	}
	*s = *NewState()
	s.RV = j.RV
	for _, o := range j.APISets {
		s.API.Sets[o.Name] = o
	}
	for _, o := range j.APIPods {
		s.API.Pods[ObjKey(o.Namespace, o.Name)] = o
	}
	for _, o := range j.APIPVCs {
		s.API.PVCs[o.Name] = o
	}
	for _, o := range j.APIRevs {
		s.API.Revs[o.Name] = o
	}
	for _, o := range j.APIBSets {
		s.API.BSets[o.Name] = o
	}
	if j.CacheIsAPI {
		s.SyncCaches()
		return nil
	}
	for _, o := range j.CacheSets {
		s.Cache.Sets[o.Name] = o
	}
	for _, o := range j.CachePods {
		s.Cache.Pods[ObjKey(o.Namespace, o.Name)] = o
	}
	for _, o := range j.CachePVCs {
		s.Cache.PVCs[o.Name] = o
	}
	s.Pending = j.Pending
	return nil
}

func sortedKeys[V any](m map[string]V) []string {
	keys := make([]string, 0, len(m))
	for k := range m {
		keys = append(keys, k)
	}
	sort.Strings(keys)
	return keys
}

// SortedKeys is exported for other packages.
func SortedKeys[V any](m map[string]V) []string { return sortedKeys(m) }
