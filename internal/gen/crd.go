package gen

import (
	"encoding/json"
	"fmt"
	"os"

	"sigs.k8s.io/yaml"
)

// Schema is the subset of a structural OpenAPI v3 schema that
// manifests/crd.v1.yaml uses. Any other keyword makes loading fail, so the
// interpreter can never silently ignore a constraint the CRD states.
type Schema struct {
	Type       string             `json:"type"`
	Required   []string           `json:"required"`
	Properties map[string]*Schema `json:"properties"`
	Items      *Schema            `json:"items"`
	Minimum    *float64           `json:"minimum"`
	Default    interface{}        `json:"default"`
	Preserve   bool               `json:"x-kubernetes-preserve-unknown-fields"`
}

var knownKeywords = map[string]bool{"type": true, "required": true, "properties": true, "items": true, "minimum": true, "default": true, "x-kubernetes-preserve-unknown-fields": true}

func checkKeywords(m map[string]interface{}, path string) error {
	for k, v := range m {
		if !knownKeywords[k] {
			return fmt.Errorf("schema keyword %q at %s is not supported by the mini interpreter", k, path)
		}
		switch k {
		case "properties":
			for name, sub := range v.(map[string]interface{}) {
				if err := checkKeywords(sub.(map[string]interface{}), path+"."+name); err != nil {
					return err
				}
			}
		case "items":
			if err := checkKeywords(v.(map[string]interface{}), path+"[]"); err != nil {
				return err
			}
		}
	}
	return nil
}

// LoadCRDSchema reads the schema of the storage version from a CRD manifest.
func LoadCRDSchema(path string) (*Schema, string, error) {
	b, err := os.ReadFile(path)
	if err != nil {
		return nil, "", err
	}
	var crd struct {
		Spec struct {
			Versions []struct {
				Name    string `json:"name"`
				Storage bool   `json:"storage"`
				Schema  struct {
					OpenAPIV3Schema map[string]interface{} `json:"openAPIV3Schema"`
				} `json:"schema"`
			} `json:"versions"`
		} `json:"spec"`
	}
	if err := yaml.Unmarshal(b, &crd); err != nil {
		return nil, "", err
	}
	for _, v := range crd.Spec.Versions {
		if !v.Storage {
			continue
		}
		if err := checkKeywords(v.Schema.OpenAPIV3Schema, "$"); err != nil {
			return nil, "", err
		}
		raw, _ := json.Marshal(v.Schema.OpenAPIV3Schema)
		s := &Schema{}
		if err := json.Unmarshal(raw, s); err != nil {
			return nil, "", err
		}
		return s, v.Name, nil
	}
	return nil, "", fmt.Errorf("no storage version in %s", path)
}

// Admit applies what the API server does with a structural schema: prune
// unknown fields, apply defaults, validate. It returns the stored object or an
// error. apiVersion/kind/metadata at the root are always kept.
func (s *Schema) Admit(obj map[string]interface{}) (map[string]interface{}, error) {
	out := deepCopyJSON(obj).(map[string]interface{})
	s.prune(out, true)
	s.defaults(out)
	if err := s.validate(out, "$"); err != nil {
		return nil, err
	}
	return out, nil
}

func deepCopyJSON(v interface{}) interface{} {
	b, _ := json.Marshal(v)
	var o interface{}
	json.Unmarshal(b, &o)
	return o
}

func (s *Schema) prune(v interface{}, root bool) {
	switch x := v.(type) {
	case map[string]interface{}:
		for k, sub := range x {
			if root && (k == "apiVersion" || k == "kind" || k == "metadata") {
				continue
			}
			ps, ok := s.Properties[k]
			if !ok {
				if !s.Preserve {
					delete(x, k)
				}
				continue
			}
			ps.prune(sub, false)
		}
	case []interface{}:
		if s.Items != nil {
			for _, e := range x {
				s.Items.prune(e, false)
			}
		}
	}
}

func (s *Schema) defaults(v interface{}) {
	switch x := v.(type) {
	case map[string]interface{}:
		for k, ps := range s.Properties {
			if _, ok := x[k]; !ok && ps.Default != nil {
				x[k] = deepCopyJSON(ps.Default)
			}
		}
		for k, sub := range x {
			if ps, ok := s.Properties[k]; ok {
				ps.defaults(sub)
			}
		}
	case []interface{}:
		if s.Items != nil {
			for _, e := range x {
				s.Items.defaults(e)
			}
		}
	}
}

func (s *Schema) validate(v interface{}, path string) error {
	if v == nil {
		return fmt.Errorf("%s: null is not allowed (not nullable)", path)
	}
	switch s.Type {
	case "object":
		m, ok := v.(map[string]interface{})
		if !ok {
			return fmt.Errorf("%s: want object", path)
		}
		for _, r := range s.Required {
			if _, ok := m[r]; !ok {
				return fmt.Errorf("%s.%s: required", path, r)
			}
		}
		for k, sub := range m {
			if ps, ok := s.Properties[k]; ok {
				if err := ps.validate(sub, path+"."+k); err != nil {
					return err
				}
			}
		}
	case "array":
		l, ok := v.([]interface{})
		if !ok {
			return fmt.Errorf("%s: want array", path)
		}
		if s.Items != nil {
			for i, e := range l {
				if err := s.Items.validate(e, fmt.Sprintf("%s[%d]", path, i)); err != nil {
					return err
				}
			}
		}
	case "string":
		if _, ok := v.(string); !ok {
			return fmt.Errorf("%s: want string", path)
		}
	case "integer":
		f, ok := v.(float64)
		if !ok || f != float64(int64(f)) {
			return fmt.Errorf("%s: want integer", path)
		}
		if s.Minimum != nil && f < *s.Minimum {
			return fmt.Errorf("%s: below minimum", path)
		}
	case "":
	default:
		return fmt.Errorf("%s: unsupported type %q", path, s.Type)
	}
	return nil
}
