package gen

import (
	"fmt"
	"reflect"
	"strings"
	"time"

	"k8s.io/apimachinery/pkg/api/resource"
	metav1 "k8s.io/apimachinery/pkg/apis/meta/v1"
	"k8s.io/apimachinery/pkg/runtime"
	"k8s.io/apimachinery/pkg/util/intstr"
)

// Mutation sets one path of an object to one variant value.
type Mutation struct {
	Path    string
	Variant string
	Apply   func(root reflect.Value) // root is the addressable struct value
}

var (
	tQuantity    = reflect.TypeOf(resource.Quantity{})
	tTime        = reflect.TypeOf(metav1.Time{})
	tMicroTime   = reflect.TypeOf(metav1.MicroTime{})
	tDuration    = reflect.TypeOf(metav1.Duration{})
	tIntOrString = reflect.TypeOf(intstr.IntOrString{})
	tFieldsV1    = reflect.TypeOf(metav1.FieldsV1{})
	tRawExt      = reflect.TypeOf(runtime.RawExtension{})
)

// typical returns a non-zero, JSON-round-trippable value of type t (n varies it).
func typical(t reflect.Type, n int) (reflect.Value, bool) {
	switch t {
	case tQuantity:
		return reflect.ValueOf(resource.MustParse(fmt.Sprintf("%dGi", n+1))), true
	case tTime:
		return reflect.ValueOf(metav1.NewTime(time.Unix(1_600_000_000+int64(n), 0).UTC())), true
	case tMicroTime:
		return reflect.ValueOf(metav1.NewMicroTime(time.Unix(1_600_000_000+int64(n), 0).UTC())), true
	case tDuration:
		return reflect.ValueOf(metav1.Duration{Duration: time.Duration(n+1) * time.Second}), true
	case tIntOrString:
		if n%2 == 0 {
			return reflect.ValueOf(intstr.FromInt(n + 1)), true
		}
		return reflect.ValueOf(intstr.FromString("p")), true
	case tFieldsV1:
		return reflect.ValueOf(metav1.FieldsV1{Raw: []byte(`{"f:x":{}}`)}), true
	case tRawExt:
		return reflect.ValueOf(runtime.RawExtension{Raw: []byte(`{"a":1}`)}), true
	}
	switch t.Kind() {
	case reflect.String:
		v := reflect.New(t).Elem()
		if n == 2 {
			// characters that JSON encoders may or may not escape
			v.SetString("a&b<c>d\u2028e\"f'g\\h")
		} else {
			v.SetString(fmt.Sprintf("s%d", n))
		}
		return v, true
	case reflect.Bool:
		v := reflect.New(t).Elem()
		v.SetBool(true)
		return v, true
	case reflect.Int, reflect.Int8, reflect.Int16, reflect.Int32, reflect.Int64:
		v := reflect.New(t).Elem()
		v.SetInt(int64(7 + n))
		return v, true
	case reflect.Uint, reflect.Uint8, reflect.Uint16, reflect.Uint32, reflect.Uint64:
		v := reflect.New(t).Elem()
		v.SetUint(uint64(7 + n))
		return v, true
	case reflect.Float32, reflect.Float64:
		v := reflect.New(t).Elem()
		v.SetFloat(1.5)
		return v, true
	}
	return reflect.Value{}, false
}

func isLeafType(t reflect.Type) bool {
	switch t {
	case tQuantity, tTime, tMicroTime, tDuration, tIntOrString, tFieldsV1, tRawExt:
		return true
	}
	switch t.Kind() {
	case reflect.Struct, reflect.Ptr, reflect.Slice, reflect.Map, reflect.Interface:
		return false
	}
	return true
}

// typicalDeep fills a value of type t with typical content, one level of
// structure (used for list elements and map values).
func typicalDeep(t reflect.Type, n int, depth int) reflect.Value {
	if v, ok := typical(t, n); ok {
		return v
	}
	v := reflect.New(t).Elem()
	if depth <= 0 {
		return v
	}
	switch t.Kind() {
	case reflect.Struct:
		// set the first string/int field so that elements differ from each other
		for i := 0; i < t.NumField(); i++ {
			f := t.Field(i)
			if f.PkgPath != "" {
				continue
			}
			if isLeafType(f.Type) && (f.Type.Kind() == reflect.String || f.Type.Kind() == reflect.Int32 || f.Type.Kind() == reflect.Int64) {
				tv, _ := typical(f.Type, n)
				v.Field(i).Set(tv)
				break
			}
		}
	case reflect.Ptr:
		p := reflect.New(t.Elem())
		p.Elem().Set(typicalDeep(t.Elem(), n, depth-1))
		return p
	case reflect.Slice:
		s := reflect.MakeSlice(t, 1, 1)
		s.Index(0).Set(typicalDeep(t.Elem(), n, depth-1))
		return s
	case reflect.Map:
		m := reflect.MakeMap(t)
		if t.Key().Kind() == reflect.String {
			k := reflect.New(t.Key()).Elem()
			k.SetString(fmt.Sprintf("k%d", n))
			m.SetMapIndex(k, typicalDeep(t.Elem(), n, depth-1))
		}
		return m
	}
	return v
}

func jsonName(f reflect.StructField) (string, bool, bool) {
	tag := f.Tag.Get("json")
	if tag == "-" {
		return "", false, false
	}
	parts := strings.Split(tag, ",")
	inline := false
	for _, p := range parts[1:] {
		if p == "inline" {
			inline = true
		}
	}
	name := parts[0]
	if name == "" && !inline {
		name = f.Name
	}
	return name, inline, true
}

// Mutations enumerates single-path mutations of type t down to maxDepth.
// get navigates from the root to the value being mutated, allocating
// pointers on the way.
func Mutations(t reflect.Type, maxDepth int) []Mutation {
	var out []Mutation
	var walk func(t reflect.Type, path string, get func(root reflect.Value) reflect.Value, depth int)
	add := func(path, variant string, get func(root reflect.Value) reflect.Value, set func(v reflect.Value)) {
		out = append(out, Mutation{Path: path, Variant: variant, Apply: func(root reflect.Value) { set(get(root)) }})
	}
	walk = func(t reflect.Type, path string, get func(root reflect.Value) reflect.Value, depth int) {
		if isLeafType(t) {
			variants := 2
			if t.Kind() == reflect.String {
				variants = 3
			}
			for n := 0; n < variants; n++ {
				n := n
				tv, ok := typical(t, n)
				if !ok {
					return
				}
				add(path, fmt.Sprintf("typical%d", n), get, func(v reflect.Value) { v.Set(tv) })
			}
			add(path, "zero", get, func(v reflect.Value) { v.Set(reflect.Zero(v.Type())) })
			return
		}
		if depth <= 0 {
			return
		}
		switch t.Kind() {
		case reflect.Struct:
			for i := 0; i < t.NumField(); i++ {
				f := t.Field(i)
				if f.PkgPath != "" {
					continue
				}
				name, inline, ok := jsonName(f)
				if !ok {
					continue
				}
				i := i
				p := path + "." + name
				if inline {
					p = path
				}
				walk(f.Type, p, func(root reflect.Value) reflect.Value { return get(root).Field(i) }, depth-1)
			}
		case reflect.Ptr:
			add(path, "nil", get, func(v reflect.Value) { v.Set(reflect.Zero(v.Type())) })
			add(path, "ptr-to-zero", get, func(v reflect.Value) { v.Set(reflect.New(v.Type().Elem())) })
			walk(t.Elem(), path, func(root reflect.Value) reflect.Value {
				v := get(root)
				if v.IsNil() {
					v.Set(reflect.New(v.Type().Elem()))
				}
				return v.Elem()
			}, depth)
		case reflect.Slice:
			add(path, "nil", get, func(v reflect.Value) { v.Set(reflect.Zero(v.Type())) })
			add(path, "empty", get, func(v reflect.Value) { v.Set(reflect.MakeSlice(v.Type(), 0, 0)) })
			for _, n := range []int{1, 3} {
				n := n
				add(path, fmt.Sprintf("len%d", n), get, func(v reflect.Value) {
					s := reflect.MakeSlice(v.Type(), n, n)
					for i := 0; i < n; i++ {
						s.Index(i).Set(typicalDeep(v.Type().Elem(), i, 2))
					}
					v.Set(s)
				})
			}
			if t.Elem().Kind() == reflect.Struct && !isLeafType(t.Elem()) {
				walk(t.Elem(), path+"[0]", func(root reflect.Value) reflect.Value {
					v := get(root)
					if v.Len() == 0 {
						s := reflect.MakeSlice(v.Type(), 1, 1)
						s.Index(0).Set(typicalDeep(v.Type().Elem(), 0, 1))
						v.Set(s)
					}
					return v.Index(0)
				}, depth-1)
			}
		case reflect.Map:
			add(path, "nil", get, func(v reflect.Value) { v.Set(reflect.Zero(v.Type())) })
			add(path, "empty", get, func(v reflect.Value) { v.Set(reflect.MakeMap(v.Type())) })
			add(path, "one", get, func(v reflect.Value) { v.Set(typicalDeep(v.Type(), 0, 2)) })
		}
	}
	walk(t, "$", func(root reflect.Value) reflect.Value { return root }, maxDepth)
	return out
}

// UnmodelledPaths lists JSON paths that exist in type a but not in type b
// (walking structs by JSON name; stops where the two types are identical).
func UnmodelledPaths(a, b reflect.Type) []string {
	var out []string
	var walk func(a, b reflect.Type, path string)
	walk = func(a, b reflect.Type, path string) {
		for a.Kind() == reflect.Ptr || a.Kind() == reflect.Slice {
			a = a.Elem()
		}
		for b.Kind() == reflect.Ptr || b.Kind() == reflect.Slice {
			b = b.Elem()
		}
		if a == b || a.Kind() != reflect.Struct || b.Kind() != reflect.Struct {
			return
		}
		bf := map[string]reflect.StructField{}
		for i := 0; i < b.NumField(); i++ {
			if n, _, ok := jsonName(b.Field(i)); ok {
				bf[n] = b.Field(i)
			}
		}
		for i := 0; i < a.NumField(); i++ {
			f := a.Field(i)
			n, inline, ok := jsonName(f)
			if !ok {
				continue
			}
			other, found := bf[n]
			p := path + "." + n
			if inline {
				p = path
			}
			if !found {
				out = append(out, p)
				continue
			}
			walk(f.Type, other.Type, p)
		}
	}
	walk(a, b, "$")
	return out
}

// ZeroPaths zeroes the given JSON paths (as produced by UnmodelledPaths) in v.
func ZeroPaths(v reflect.Value, paths []string) {
	for _, p := range paths {
		zeroPath(v, strings.Split(strings.TrimPrefix(p, "$."), "."))
	}
}

func zeroPath(v reflect.Value, parts []string) {
	for v.Kind() == reflect.Ptr {
		if v.IsNil() {
			return
		}
		v = v.Elem()
	}
	if v.Kind() == reflect.Slice {
		for i := 0; i < v.Len(); i++ {
			zeroPath(v.Index(i), parts)
		}
		return
	}
	if v.Kind() != reflect.Struct {
		return
	}
	t := v.Type()
	for i := 0; i < t.NumField(); i++ {
		n, inline, ok := jsonName(t.Field(i))
		if !ok {
			continue
		}
		if inline {
			zeroPath(v.Field(i), parts)
			continue
		}
		if n == parts[0] {
			if len(parts) == 1 {
				v.Field(i).Set(reflect.Zero(t.Field(i).Type))
			} else {
				zeroPath(v.Field(i), parts[1:])
			}
		}
	}
}
