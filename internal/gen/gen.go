// Package gen builds the bounded families of objects and cluster snapshots
// the drivers enumerate.
package gen

import (
	"encoding/json"
	"fmt"
	"sort"
	"strings"
	"sync"
	"time"

	asv1 "github.com/pingcap/advanced-statefulset/client/apis/apps/v1"
	appsv1 "k8s.io/api/apps/v1"
	v1 "k8s.io/api/core/v1"
	metav1 "k8s.io/apimachinery/pkg/apis/meta/v1"
	"k8s.io/apimachinery/pkg/types"

	"verif/internal/world"
)

const (
	SetName = "web"
	SetUID  = types.UID("uid-web")
	Service = "web-svc"
)

// Strategy of a spec.
type Strategy struct {
	Type      string // "RollingUpdate" | "OnDelete" | other
	Partition *int32 // nil with RUNil=false means rollingUpdate: {partition: nil}
	RUNil     bool   // rollingUpdate block absent
}

func RU(p int32) Strategy { return Strategy{Type: "RollingUpdate", Partition: &p} }
func OnDelete() Strategy  { return Strategy{Type: "OnDelete", RUNil: true} }

// Typeless: the strategy type is omitted but a rollingUpdate block is given (the CRD does not default the type;
// the controller treats it as a rolling update everywhere).
func Typeless(p int32) Strategy { return Strategy{Type: "", Partition: &p} }

// OnDeleteWithBlock: type OnDelete with a leftover rollingUpdate block (as after a merge patch of the type only).
func OnDeleteWithBlock(p int32) Strategy { return Strategy{Type: "OnDelete", Partition: &p} }
func (s Strategy) String() string {
	if s.Type == "RollingUpdate" && s.Partition != nil {
		return fmt.Sprintf("RU(p=%d)", *s.Partition)
	}
	if s.RUNil {
		return s.Type + "(nil)"
	}
	if s.Partition == nil {
		return s.Type + "(p=nil)"
	}
	return fmt.Sprintf("%s(p=%d)", s.Type, *s.Partition)
}

// Spec is the user-facing part of a StatefulSet in the grids.
type Spec struct {
	Name      string
	Replicas  int32
	Slots     []int32 // well-formed slots; ignored when SlotsRaw != nil
	SlotsRaw  *string // raw annotation value
	Policy    string  // "OrderedReady" | "Parallel" | other
	Strategy  Strategy
	Limit     int32
	Template  int // template id of spec.template
	Paused    bool
	Deleting  bool
	Claims    []string // volume claim template names
	ClaimNS   string   // metadata.namespace written on the claim templates ("" = none)
	ClaimOwn  bool     // claim templates carry labels of their own
	ExtraAnn  map[string]string
	ExtraVols []string // names of non-claim volumes in the pod template
	SelExpr   bool     // selector written as matchExpressions (app In (web)) instead of matchLabels
	// SelBoth: matchLabels app=web AND matchExpressions track NotIn (canary); a NoMatch pod then carries app=web and
	// track=canary (it satisfies the labels and is excluded by the expression)
	SelBoth bool
}

func (sp Spec) String() string {
	s := fmt.Sprintf("r=%d slots=%v %s %s T%d lim=%d", sp.Replicas, sp.Slots, sp.Policy, sp.Strategy, sp.Template, sp.Limit)
	if sp.SlotsRaw != nil {
		s += fmt.Sprintf(" slotsRaw=%q", *sp.SlotsRaw)
	}
	if sp.SelExpr {
		s += " selector=expressions"
	}
	if sp.Paused {
		s += " paused"
	}
	if sp.Deleting {
		s += " deleting"
	}
	if len(sp.Claims) > 0 {
		s += fmt.Sprintf(" claims=%v", sp.Claims)
	}
	return s
}

func Image(k int) string { return fmt.Sprintf("img:T%d", k) }

// TemplateOf returns the template id encoded in an image string (0 if none).
func TemplateOf(image string) int {
	var k int
	if _, err := fmt.Sscanf(image, "img:T%d", &k); err != nil {
		return 0
	}
	return k
}

var SelectorLabels = map[string]string{"app": "web"}

func PodTemplate(k int, extraVols []string) v1.PodTemplateSpec {
	t := v1.PodTemplateSpec{
		ObjectMeta: metav1.ObjectMeta{Labels: map[string]string{"app": "web"}},
		Spec: v1.PodSpec{
			Containers: []v1.Container{{Name: "c", Image: Image(k)}},
		},
	}
	for _, n := range extraVols {
		t.Spec.Volumes = append(t.Spec.Volumes, v1.Volume{Name: n, VolumeSource: v1.VolumeSource{EmptyDir: &v1.EmptyDirVolumeSource{}}})
	}
	return t
}

func SlotsAnn(slots []int32) string {
	b, _ := json.Marshal(slots)
	return string(b)
}

var T0 = metav1.NewTime(time.Unix(1_000_000_000, 0).UTC())

// Build returns the StatefulSet object for a spec (status empty).
func (sp Spec) Build() *asv1.StatefulSet {
	name := sp.Name
	if name == "" {
		name = SetName
	}
	r, lim := sp.Replicas, sp.Limit
	set := &asv1.StatefulSet{
		TypeMeta: metav1.TypeMeta{Kind: "StatefulSet", APIVersion: "apps.pingcap.com/v1"},
		ObjectMeta: metav1.ObjectMeta{
			Name: name, Namespace: world.NS, UID: types.UID("uid-" + name), Generation: 1, ResourceVersion: "1",
			CreationTimestamp: T0,
		},
		Spec: asv1.StatefulSetSpec{
			Replicas:             &r,
			Selector:             &metav1.LabelSelector{MatchLabels: map[string]string{"app": "web"}},
			Template:             PodTemplate(sp.Template, sp.ExtraVols),
			ServiceName:          Service,
			PodManagementPolicy:  asv1.PodManagementPolicyType(sp.Policy),
			RevisionHistoryLimit: &lim,
		},
	}
	if sp.SelBoth {
		set.Spec.Selector = &metav1.LabelSelector{MatchLabels: map[string]string{"app": "web"}, MatchExpressions: []metav1.LabelSelectorRequirement{{Key: "track", Operator: metav1.LabelSelectorOpNotIn, Values: []string{"canary"}}}}
	}
	if sp.SelExpr {
		set.Spec.Selector = &metav1.LabelSelector{MatchExpressions: []metav1.LabelSelectorRequirement{{Key: "app", Operator: metav1.LabelSelectorOpIn, Values: []string{"web", "web2"}}}}
	}
	set.Spec.UpdateStrategy.Type = asv1.StatefulSetUpdateStrategyType(sp.Strategy.Type)
	if !sp.Strategy.RUNil {
		set.Spec.UpdateStrategy.RollingUpdate = &asv1.RollingUpdateStatefulSetStrategy{}
		if sp.Strategy.Partition != nil {
			p := *sp.Strategy.Partition
			set.Spec.UpdateStrategy.RollingUpdate.Partition = &p
		}
	}
	ann := map[string]string{}
	if sp.SlotsRaw != nil {
		ann["delete-slots"] = *sp.SlotsRaw
	} else if len(sp.Slots) > 0 {
		ann["delete-slots"] = SlotsAnn(sp.Slots)
	}
	if sp.Paused {
		ann["paused-reconcile"] = "true"
	}
	for k, v := range sp.ExtraAnn {
		ann[k] = v
	}
	if len(ann) > 0 {
		set.Annotations = ann
	}
	if sp.Deleting {
		t := T0
		set.DeletionTimestamp = &t
		// an object with a deletion timestamp exists only while a finalizer holds it; this one is nobody's the garbage
		// collector knows
		set.Finalizers = []string{"example.com/hold"}
	}
	for _, c := range sp.Claims {
		var own map[string]string
		if sp.ClaimOwn {
			own = map[string]string{"own": c}
		}
		set.Spec.VolumeClaimTemplates = append(set.Spec.VolumeClaimTemplates, v1.PersistentVolumeClaim{
			ObjectMeta: metav1.ObjectMeta{Name: c, Labels: own, Namespace: sp.ClaimNS},
			Spec:       v1.PersistentVolumeClaimSpec{AccessModes: []v1.PersistentVolumeAccessMode{v1.ReadWriteOnce}},
		})
	}
	return set
}

// ---- pods ----

// Cell is what sits at one ordinal.
type Cell struct {
	Present bool
	Phase   v1.PodPhase // Pending, Running, Failed, Succeeded
	Ready   bool        // only with Running
	Term    bool        // deletionTimestamp set
	Rev     int         // index into the scenario's revision list (-1: label names no revision, -2: no label)
	Owner   string      // "" = this set; "none" = orphan; "otheruid"; "otherkind"; "noncontroller"
	NoMatch bool        // labels do not match the selector
	// NoVols: the pod lacks the volumes of the set's claim templates (a template was added to the running set, or the
	// pod is an orphan that never had them)
	NoVols bool
	// Nested: the pod is named <set>-<ord>-0, i.e. it is ordinal 0 of ANOTHER set called <set>-<ord> (sets whose names
	// are prefixes of each other); it matches the selector and has no owner. It is not a pod of this set.
	Nested  bool
	NoIdent bool // the pod-name label is missing (identity must be repaired by an update)
	OldSvc  bool // hostname/subdomain stem from an earlier incarnation with another governing service
}

func (c Cell) String() string {
	if !c.Present {
		return "-"
	}
	s := string(c.Phase[:1])
	if c.Phase == v1.PodRunning {
		if c.Ready {
			s = "R"
		} else {
			s = "u"
		}
	} else if c.Ready {
		s += "+readyCondition"
	}
	if c.Term {
		s += "t"
	}
	s += fmt.Sprintf("%d", c.Rev)
	if c.Owner != "" {
		s += "/" + c.Owner
	}
	if c.NoMatch {
		s += "/nomatch"
	}
	if c.Nested {
		s += "/named-like-a-pod-of-the-set-" + "<set>-<ord>"
	}
	if c.NoVols {
		s += "/without-the-claim-volumes"
	}
	if c.NoIdent {
		s += "/noident"
	}
	if c.OldSvc {
		s += "/oldsvc"
	}
	return s
}

var (
	Absent  = Cell{}
	ReadyAt = func(rev int) Cell { return Cell{Present: true, Phase: v1.PodRunning, Ready: true, Rev: rev} }
)

func boolp(b bool) *bool { return &b }

// OwnerRef builds the owner reference list for an owner class.
func OwnerRef(set *asv1.StatefulSet, class string) []metav1.OwnerReference {
	switch class {
	case "":
		return []metav1.OwnerReference{{APIVersion: "apps.pingcap.com/v1", Kind: "StatefulSet", Name: set.Name, UID: set.UID, Controller: boolp(true), BlockOwnerDeletion: boolp(true)}}
	case "none":
		return nil
	case "otheruid":
		return []metav1.OwnerReference{{APIVersion: "apps.pingcap.com/v1", Kind: "StatefulSet", Name: set.Name, UID: "uid-stale", Controller: boolp(true), BlockOwnerDeletion: boolp(true)}}
	case "otherkind":
		return []metav1.OwnerReference{{APIVersion: "apps/v1", Kind: "ReplicaSet", Name: "rs", UID: "uid-rs", Controller: boolp(true), BlockOwnerDeletion: boolp(true)}}
	case "noncontroller":
		return []metav1.OwnerReference{{APIVersion: "apps.pingcap.com/v1", Kind: "StatefulSet", Name: set.Name, UID: set.UID}}
	case "builtin":
		// the built-in StatefulSet of the same name the set was upgraded from (deleted with orphan propagation; the
		// garbage collector has not removed the reference yet)
		return []metav1.OwnerReference{{APIVersion: "apps/v1", Kind: "StatefulSet", Name: set.Name, UID: "uid-builtin", Controller: boolp(true), BlockOwnerDeletion: boolp(true)}}
	}
	panic("unknown owner class " + class)
}

// PodName returns <set>-<ord>.
func PodName(set string, ord int) string { return fmt.Sprintf("%s-%d", set, ord) }

// BuildPod builds the pod a healthy controller would have created for ordinal
// ord from template k, then dresses it according to the cell.
func BuildPod(set *asv1.StatefulSet, ord int, c Cell, revName string, tmpl int, extraVols []string) *v1.Pod {
	name := PodName(set.Name, ord)
	if c.Nested {
		name += "-0"
	}
	t := PodTemplate(tmpl, extraVols)
	p := &v1.Pod{
		TypeMeta: metav1.TypeMeta{Kind: "Pod", APIVersion: "v1"},
		ObjectMeta: metav1.ObjectMeta{
			Name: name, Namespace: world.NS, UID: types.UID("uid-" + name), ResourceVersion: "1",
			Labels:            map[string]string{},
			CreationTimestamp: T0,
			OwnerReferences:   OwnerRef(set, c.Owner),
		},
		Spec: t.Spec,
	}
	for k, v := range t.Labels {
		p.Labels[k] = v
	}
	if c.NoMatch {
		p.Labels["app"] = "other"
		if sel := set.Spec.Selector; sel != nil && len(sel.MatchLabels) > 0 && len(sel.MatchExpressions) > 0 {
			p.Labels["app"], p.Labels["track"] = "web", "canary"
		}
	}
	if !c.NoIdent {
		p.Labels["statefulset.kubernetes.io/pod-name"] = name
	}
	if c.Rev != -2 {
		p.Labels["controller-revision-hash"] = revName
	}
	p.Spec.Hostname = name
	p.Spec.Subdomain = set.Spec.ServiceName
	if c.OldSvc {
		p.Spec.Subdomain = "old-svc"
	}
	p.Spec.NodeName = "node"
	var vols []v1.Volume
	for _, ct := range set.Spec.VolumeClaimTemplates {
		vols = append(vols, v1.Volume{Name: ct.Name, VolumeSource: v1.VolumeSource{PersistentVolumeClaim: &v1.PersistentVolumeClaimVolumeSource{ClaimName: fmt.Sprintf("%s-%s-%d", ct.Name, set.Name, ord)}}})
	}
	if c.NoVols {
		vols = nil
	}
	// as the controller builds it: a template volume named like a claim template gives way to the claim
	claimNames := map[string]bool{}
	for _, v := range vols {
		claimNames[v.Name] = true
	}
	for _, v := range p.Spec.Volumes {
		if !claimNames[v.Name] {
			vols = append(vols, v)
		}
	}
	p.Spec.Volumes = vols
	p.Status.Phase = c.Phase
	if c.Phase == v1.PodRunning {
		st := v1.ConditionFalse
		if c.Ready {
			st = v1.ConditionTrue
		}
		p.Status.Conditions = []v1.PodCondition{{Type: v1.PodReady, Status: st}}
	} else if c.Ready {
		// a Ready condition without the Running phase (valid for the API; some node agents report it): not Running
		p.Status.Conditions = []v1.PodCondition{{Type: v1.PodReady, Status: v1.ConditionTrue}}
	}
	if c.Term {
		ts := T0
		p.DeletionTimestamp = &ts
	}
	return p
}

// ---- revisions ----

var (
	revMu    sync.Mutex
	revCache = map[string]*appsv1.ControllerRevision{}
)

// Revision returns the ControllerRevision the real controller creates for
// the set's template (harvested by a scratch reconcile on an empty cluster,
// cached per set name, template and selector shape: the revision is the one the code under test makes for such a set). The object's Revision number is 1.
func Revision(w *world.World, sp Spec, k int) *appsv1.ControllerRevision {
	sp.Template = k
	key := fmt.Sprintf("%s|%d|%v|%v", sp.Name, k, sp.ExtraVols, sp.SelExpr)
	revMu.Lock()
	r, ok := revCache[key]
	revMu.Unlock()
	if ok {
		return r
	}
	scratch := Spec{Name: sp.Name, Replicas: 0, Policy: "OrderedReady", Strategy: RU(0), Limit: 10, Template: k, ExtraVols: sp.ExtraVols, SelExpr: sp.SelExpr}
	set := scratch.Build()
	st := world.NewState()
	st.API.Sets[set.Name] = set
	st.SyncCaches()
	w.Load(st)
	rec := w.Reconcile(world.NS+"/"+set.Name, nil)
	if rec.Panic != nil || rec.Err != nil || len(rec.After.API.Revs) != 1 {
		panic(world.HarnessError{Msg: fmt.Sprintf("cannot harvest a revision for template %d: panic=%v err=%v revs=%d", k, rec.Panic, rec.Err, len(rec.After.API.Revs))})
	}
	for _, x := range rec.After.API.Revs {
		r = x.DeepCopy()
	}
	r.CreationTimestamp = T0
	r.ResourceVersion = "1"
	r.UID = types.UID("uid-" + r.Name)
	revMu.Lock()
	revCache[key] = r
	revMu.Unlock()
	return r
}

// ---- scenarios ----

// Scenario is one cluster snapshot in grid form.
type Scenario struct {
	Spec  Spec
	Revs  []int // template ids of the stored revisions, ascending revision number 1..n
	Cur   int   // index into Revs named by status.currentRevision; -1 unset; -2 dangling name
	Cells []Cell
	// Far: additional pods at these (large, multi-digit) ordinals, Ready at the current revision
	Far []int
	// StaleStatus: counters zero and observedGeneration behind instead of a census
	StaleStatus bool
	// StatusAhead: the status was left by someone else (copied by helper.Upgrade, restored from a backup):
	// observedGeneration is ahead of metadata.generation and the counters are not a census
	StatusAhead bool
	Collision   *int32
}

func (sc Scenario) String() string {
	var cs []string
	for _, c := range sc.Cells {
		cs = append(cs, c.String())
	}
	s := fmt.Sprintf("%s revs=%v cur=%d pods=[%s]", sc.Spec, sc.Revs, sc.Cur, strings.Join(cs, " "))
	if len(sc.Far) > 0 {
		s += fmt.Sprintf(" far=%v", sc.Far)
	}
	if sc.StaleStatus {
		s += " stale-status"
	}
	if sc.StatusAhead {
		s += " status-of-another-writer(observedGeneration ahead)"
	}
	return s
}

// RevName returns the stored revision name for index i of the scenario.
func (sc Scenario) revObjs(w *world.World) []*appsv1.ControllerRevision {
	var out []*appsv1.ControllerRevision
	seen := map[int]bool{}
	for i, k := range sc.Revs {
		if seen[k] {
			panic("scenario lists a template twice in its history")
		}
		seen[k] = true
		r := Revision(w, sc.Spec, k).DeepCopy()
		r.Revision = int64(i + 1)
		r.CreationTimestamp = metav1.NewTime(T0.Add(time.Duration(i) * time.Second))
		out = append(out, r)
	}
	return out
}

// Build materialises the scenario as a state with fresh caches.
func (sc Scenario) Build(w *world.World) *world.State {
	set := sc.Spec.Build()
	revs := sc.revObjs(w)
	st := world.NewState()
	for _, r := range revs {
		st.API.Revs[r.Name] = r
	}
	revName := func(i int) string {
		if i >= 0 && i < len(revs) {
			return revs[i].Name
		}
		return set.Name + "-norev"
	}
	revTmpl := func(i int) int {
		if i >= 0 && i < len(sc.Revs) {
			return sc.Revs[i]
		}
		return 9
	}
	cells := map[int]Cell{}
	for ord, c := range sc.Cells {
		cells[ord] = c
	}
	farRev := sc.Cur
	if farRev < 0 {
		farRev = len(sc.Revs) - 1
	}
	for _, ord := range sc.Far {
		if farRev >= 0 {
			cells[ord] = ReadyAt(farRev)
		}
	}
	ords := make([]int, 0, len(cells))
	for o := range cells {
		ords = append(ords, o)
	}
	sort.Ints(ords)
	for _, ord := range ords {
		c := cells[ord]
		if !c.Present {
			continue
		}
		p := BuildPod(set, ord, c, revName(c.Rev), revTmpl(c.Rev), sc.Spec.ExtraVols)
		st.API.Pods[p.Name] = p
		for _, v := range p.Spec.Volumes {
			if v.PersistentVolumeClaim != nil {
				n := v.PersistentVolumeClaim.ClaimName
				st.API.PVCs[n] = &v1.PersistentVolumeClaim{ObjectMeta: metav1.ObjectMeta{Name: n, Namespace: world.NS, UID: types.UID("uid-" + n), ResourceVersion: "1", Labels: map[string]string{"app": "web"}}}
			}
		}
	}
	// status
	switch {
	case sc.Cur >= 0:
		set.Status.CurrentRevision = revName(sc.Cur)
	case sc.Cur == -2:
		set.Status.CurrentRevision = set.Name + "-dangling"
	}
	if len(revs) > 0 {
		set.Status.UpdateRevision = revs[len(revs)-1].Name
	}
	set.Status.CollisionCount = sc.Collision
	if sc.StaleStatus {
		set.Generation = 2
		set.Status.ObservedGeneration = 1
	} else if sc.StatusAhead {
		set.Generation = 1
		set.Status.ObservedGeneration = 4
	} else {
		set.Status.ObservedGeneration = set.Generation
		for _, ord := range ords {
			c := cells[ord]
			if !c.Present || c.Owner != "" || c.NoMatch {
				continue
			}
			set.Status.Replicas++
			if c.Phase == v1.PodRunning && c.Ready {
				set.Status.ReadyReplicas++
			}
			if !c.Term {
				if revName(c.Rev) == set.Status.CurrentRevision {
					set.Status.CurrentReplicas++
				}
				if revName(c.Rev) == set.Status.UpdateRevision {
					set.Status.UpdatedReplicas++
				}
			}
		}
	}
	st.API.Sets[set.Name] = set
	st.SyncCaches()
	return st
}

// ---- small combinatorics ----

// Subsets returns all subsets of xs with at most k members, smallest first.
func Subsets(xs []int32, k int) [][]int32 {
	out := [][]int32{{}}
	var rec func(start int, cur []int32)
	rec = func(start int, cur []int32) {
		if len(cur) >= k {
			return
		}
		for i := start; i < len(xs); i++ {
			n := append(append([]int32{}, cur...), xs[i])
			out = append(out, n)
			rec(i+1, n)
		}
	}
	rec(0, nil)
	sort.SliceStable(out, func(i, j int) bool { return len(out[i]) < len(out[j]) })
	return out
}

// Populations enumerates all assignments of cells to n ordinals in which
// exactly d ordinals differ from base[ord] (d<0: the full product).
func Populations(n int, alphabet []Cell, base []Cell, d int, f func([]Cell)) {
	cur := make([]Cell, n)
	var rec func(i, diff int)
	rec = func(i, diff int) {
		if i == n {
			if d < 0 || diff == d {
				f(append([]Cell(nil), cur...))
			}
			return
		}
		if d >= 0 && diff+(n-i) < d {
			return
		}
		alpha := alphabet
		found := false
		for _, c := range alphabet {
			if c == base[i] {
				found = true
			}
		}
		if !found {
			alpha = append([]Cell{base[i]}, alphabet...)
		}
		for _, c := range alpha {
			nd := diff
			if c != base[i] {
				nd++
			}
			if d >= 0 && nd > d {
				continue
			}
			cur[i] = c
			rec(i+1, nd)
		}
	}
	rec(0, 0)
}
