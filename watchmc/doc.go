// Package watchmc holds the controlled-scheduler exploration of the hijacked
// watch (property C20). The exploration lives in a test file because it needs
// testing/synctest (Go >= 1.25): run it with scripts/run_c20.sh.
package watchmc
