//go:build go1.25

package watchmc

import (
	"context"
	"fmt"
	"os"
	"os/exec"
	"reflect"
	"regexp"
	"runtime"
	"strings"
	"sync"
	"testing"
	"testing/synctest"
	"time"

	asv1 "github.com/pingcap/advanced-statefulset/client/apis/apps/v1"
	"github.com/pingcap/advanced-statefulset/client/apis/apps/v1/helper"
	pcfake "github.com/pingcap/advanced-statefulset/client/client/clientset/versioned/fake"
	appsv1 "k8s.io/api/apps/v1"
	apiequality "k8s.io/apimachinery/pkg/api/equality"
	metav1 "k8s.io/apimachinery/pkg/apis/meta/v1"
	runtimeobj "k8s.io/apimachinery/pkg/runtime"
	utilruntime "k8s.io/apimachinery/pkg/util/runtime"
	"k8s.io/apimachinery/pkg/watch"
	kubefake "k8s.io/client-go/kubernetes/fake"
	clienttesting "k8s.io/client-go/testing"

	"verif/internal/explore"
	"verif/internal/world"
)

// ---- the source the harness owns ----

type source struct {
	ch      chan watch.Event
	stopped chan struct{}
	stops   int
	closed  bool
}

func newSource() *source { return &source{ch: make(chan watch.Event), stopped: make(chan struct{})} }

func (s *source) ResultChan() <-chan watch.Event { return s.ch }

// Stop is what the relay calls; like real watchers the source ends (closes its
// channel) once stopped. The harness performs the close as part of the Stop
// so that the schedule stays deterministic.
func (s *source) Stop() {
	s.stops++
	if s.stops == 1 {
		close(s.stopped)
	}
}

// ---- one execution ----

type action string

type obs struct {
	Received   []string // "Type:name" in order
	Closed     bool     // consumer observed closure
	Panics     []string
	Leaked     int
	Violations []string
	Enabled    []action
	Trace      []string
}

func eventName(i int, t watch.EventType) string { return fmt.Sprintf("%s:obj%d", t, i) }

func mkEvent(i int, t watch.EventType) watch.Event {
	if t == watch.Error {
		return watch.Event{Type: t, Object: &metav1.Status{Status: "Failure", Message: fmt.Sprintf("obj%d", i), Code: 410}}
	}
	s := &asv1.StatefulSet{TypeMeta: metav1.TypeMeta{Kind: "StatefulSet", APIVersion: "apps.pingcap.com/v1"}, ObjectMeta: metav1.ObjectMeta{Name: fmt.Sprintf("obj%d", i), Namespace: "default", ResourceVersion: fmt.Sprint(10 + i)}}
	if t != watch.Bookmark {
		// later events carry less than earlier ones (labels, annotations, counters and pointers disappear): nothing of
		// an earlier event may show through in a later one
		r := int32(3 - i)
		switch i {
		case 0:
			s.Labels = map[string]string{"a": "b"}
			s.Annotations = map[string]string{"delete-slots": "[1]", "x": "y"}
			s.Spec.Replicas = &r
			s.Spec.ServiceName = "svc"
			s.Status = asv1.StatefulSetStatus{Replicas: 3, ReadyReplicas: 3, CurrentRevision: "r1", ObservedGeneration: 2}
		case 1:
			s.Annotations = map[string]string{"x": "y"}
			s.Spec.Replicas = &r
			s.Status = asv1.StatefulSetStatus{Replicas: 2}
		default:
			// a bare object
		}
	}
	return watch.Event{Type: t, Object: s}
}

var panics []string

// plainContext: open the watch with context.TODO() instead of a cancellable context that outlives it.
var plainContext bool

// lazySource: the source does not close its channel when it is stopped (its producer closes it whenever it gets round
// to it, which within the horizon of an execution is never): stopping the hijacked watch must not depend on it.
var lazySource bool

var bubbleRe = regexp.MustCompile(`(?m)^goroutine \d+ \[[^\]]*synctest bubble`)

// bubbleGoroutines counts the goroutines of the current synctest bubble.
func bubbleGoroutines() int {
	buf := make([]byte, 1<<18)
	buf = buf[:runtime.Stack(buf, true)]
	return len(bubbleRe.FindAll(buf, -1))
}

func execute(t *testing.T, events []watch.EventType, sched []action) *obs {
	o := &obs{}
	synctest.Test(t, func(t *testing.T) {
		panics = nil
		kube, pc := kubefake.NewSimpleClientset(), pcfake.NewSimpleClientset()
		src := newSource()
		pc.PrependWatchReactor("statefulsets", func(clienttesting.Action) (bool, watch.Interface, error) { return true, src, nil })
		hc := helper.NewHijackClient(kube, pc)
		synctest.Wait()
		base := bubbleGoroutines()
		ctx := context.TODO()
		if !plainContext {
			// the caller's context outlives the watch (a controller's root context): it is cancelled only after the
			// verdict, so nothing of the watch may be left waiting for it
			c, cancel := context.WithCancel(context.Background())
			defer cancel()
			ctx = c
		}
		w, err := hc.AppsV1().StatefulSets("default").Watch(ctx, metav1.ListOptions{})
		if err != nil {
			o.Violations = append(o.Violations, "watch-open-error|"+err.Error())
			return
		}
		rc := w.ResultChan()
		offered, pendingSenders, consumerStops := 0, 0, 0
		senderDone := make(chan struct{}, 8)
		reap := func() {
			for {
				select {
				case <-senderDone:
					pendingSenders--
				default:
					return
				}
			}
		}
		// the source ends once the relay stopped it
		srcEnd := func() {
			if lazySource {
				return
			}
			if src.stops > 0 && !src.closed && pendingSenders == 0 {
				src.closed = true
				close(src.ch)
			}
		}
		recvOne := func() bool {
			select {
			case ev, ok := <-rc:
				if !ok {
					o.Closed = true
					return true
				}
				name := "?"
				switch x := ev.Object.(type) {
				case *appsv1.StatefulSet:
					name = x.Name
					idx := len(o.Received)
					if idx < len(events) && events[idx] != watch.Error {
						want, _ := helper.ToBuiltinStatefulSet(mkEvent(idx, events[idx]).Object.(*asv1.StatefulSet))
						if !apiequality.Semantic.DeepEqual(want, x) {
							o.Violations = append(o.Violations, fmt.Sprintf("object-not-equivalent|event %d delivered an object that is not the built-in equivalent of the source's", idx))
						}
						if x.APIVersion != "apps/v1" {
							o.Violations = append(o.Violations, fmt.Sprintf("object-not-builtin|event %d delivered apiVersion %q", idx, x.APIVersion))
						}
					}
				case *metav1.Status:
					name = x.Message
				default:
					name = reflect.TypeOf(ev.Object).String()
				}
				o.Received = append(o.Received, fmt.Sprintf("%s:%s", ev.Type, name))
				return true
			default:
				return false
			}
		}
		step := func(a action) {
			switch {
			case a == "offer":
				ev := mkEvent(offered, events[offered])
				offered++
				pendingSenders++
				go func() {
					select {
					case src.ch <- ev:
					case <-src.stopped:
					}
					senderDone <- struct{}{}
				}()
			case a == "close":
				src.closed = true
				close(src.ch)
			case a == "recv":
				if !recvOne() {
					o.Violations = append(o.Violations, "harness|recv scheduled but nothing to receive")
				}
			case a == "stop":
				consumerStops++
				w.Stop()
			}
			synctest.Wait()
			reap()
			srcEnd()
			synctest.Wait()
			reap()
			o.Trace = append(o.Trace, fmt.Sprintf("%s -> received=%d closedSeen=%v", a, len(o.Received), o.Closed))
		}
		for _, a := range sched {
			step(a)
		}
		// enabled actions after this prefix
		if offered < len(events) && !src.closed && src.stops == 0 && pendingSenders == 0 {
			o.Enabled = append(o.Enabled, "offer")
		}
		if !src.closed && pendingSenders == 0 && src.stops == 0 {
			o.Enabled = append(o.Enabled, "close")
		}
		if consumerStops < 2 {
			o.Enabled = append(o.Enabled, "stop")
		}
		// ---- verdict for "the consumer ceases to act here" ----
		expect := []string{}
		for i := 0; i < offered; i++ {
			expect = append(expect, eventName(i, events[i]))
		}
		for i, r := range o.Received {
			if i >= len(expect) || r != expect[i] {
				o.Violations = append(o.Violations, fmt.Sprintf("order-or-content|received %v, source sent %v", o.Received, expect))
				break
			}
		}
		o.Panics = append(o.Panics, panics...)
		for _, p := range panics {
			o.Violations = append(o.Violations, "relay-panic|relay goroutine panicked: "+p)
		}
		// can the consumer receive something right now? (probed for real; the caller re-executes from scratch)
		nBefore := len(o.Received)
		probe := false
		if !o.Closed {
			probe = recvOne()
			synctest.Wait()
		}
		gotEvent := len(o.Received) > nBefore
		if probe && gotEvent {
			o.Enabled = append(o.Enabled, "recv")
		} else if probe {
			o.Enabled = append(o.Enabled, "recv") // observing the closure is a receive too
		}
		alive := func() int { return bubbleGoroutines() - base - pendingSenders }
		switch {
		case o.Closed:
			if n := alive(); n > 0 {
				o.Leaked = n
				o.Violations = append(o.Violations, fmt.Sprintf("goroutine-left-behind|result channel closed but %d goroutine(s) of the watch remain", n))
			}
			if consumerStops == 0 && len(panics) == 0 && nBefore != offered-pendingSenders {
				o.Violations = append(o.Violations, fmt.Sprintf("event-lost|the channel closed after the consumer had received %d of the %d events the relay took", nBefore, offered-pendingSenders))
			}
		case consumerStops > 0 && gotEvent:
			// a consumer that stopped need not drain: the relay was blocked on an undelivered event and would stay so
			o.Leaked = 1
			o.Violations = append(o.Violations, "goroutine-left-behind|after Stop, with the consumer idle, the relay stays blocked sending an undelivered event: the result channel is not closed and the goroutine remains")
		case consumerStops > 0:
			o.Violations = append(o.Violations, fmt.Sprintf("not-closed-after-stop|after Stop the result channel is neither closed nor deliverable; %d goroutine(s) of the watch remain", alive()))
		case src.closed && !probe:
			o.Violations = append(o.Violations, fmt.Sprintf("not-closed-after-source-end|the source ended, nothing is deliverable, but the result channel is not closed (%d goroutine(s) remain)", alive()))
		}
		// ---- cleanup so that the bubble can exit ----
		w.Stop()
		synctest.Wait()
		reap()
		if !src.closed {
			for pendingSenders > 0 {
				synctest.Wait()
				reap()
				if pendingSenders > 0 {
					select {
					case <-rc:
					default:
					}
				}
			}
			src.closed = true
			close(src.ch)
		}
		for i := 0; i < 8; i++ {
			synctest.Wait()
			select {
			case _, ok := <-rc:
				if !ok {
					i = 8
				}
			default:
			}
		}
		synctest.Wait()
		if n := bubbleGoroutines() - base; n > 0 {
			// last resort: report and let the goroutine dump tell what it is
			buf := make([]byte, 1<<16)
			buf = buf[:runtime.Stack(buf, true)]
			o.Violations = append(o.Violations, "stuck-after-cleanup|goroutines remain even after stopping, closing the source and draining")
			fmt.Fprintf(os.Stderr, "goroutines remain after cleanup:\n%s\n", buf)
		}
	})
	return o
}

func TestC20(t *testing.T) {
	world.GlobalInit()
	utilruntime.ReallyCrash = false
	utilruntime.PanicHandlers = []func(interface{}){func(r interface{}) { panics = append(panics, fmt.Sprint(r)) }}
	if os.Getenv("VERIF_ROOT") == "" {
		wd, _ := os.Getwd()
		os.Setenv("VERIF_ROOT", strings.TrimSuffix(wd, "/watchmc"))
	}
	thorough := explore.Tier() == "thorough"
	rep := explore.NewReport("C20", "model_checking")
	all := []watch.EventType{watch.Added, watch.Modified, watch.Deleted, watch.Bookmark, watch.Error}
	small := []watch.EventType{watch.Added, watch.Bookmark, watch.Error}
	var seqs [][]watch.EventType
	seqs = append(seqs, nil)
	for _, a := range all {
		seqs = append(seqs, []watch.EventType{a})
		for _, b := range all {
			seqs = append(seqs, []watch.EventType{a, b})
		}
	}
	third := small
	if thorough {
		third = all
	}
	for _, a := range third {
		for _, b := range third {
			for _, c := range third {
				seqs = append(seqs, []watch.EventType{a, b, c})
			}
		}
	}
	maxLen := 9
	if thorough {
		maxLen = 11
	}
	deadline := explore.Deadline(100*time.Second, 15*time.Minute)
	var execs, nodes int64
	outcomes := map[string]int{}
	for _, seq := range seqs {
		if time.Now().After(deadline) {
			rep.Exhaustive, rep.Cap = false, "deadline"
			break
		}
		var dfs func(sched []action)
		dfs = func(sched []action) {
			o := execute(t, seq, sched)
			execs++
			nodes++
			if execs <= 200 { // determinism gate
				o2 := execute(t, seq, sched)
				if fmt.Sprint(o.Received, o.Closed, o.Violations, o.Enabled) != fmt.Sprint(o2.Received, o2.Closed, o2.Violations, o2.Enabled) {
					fmt.Fprintf(os.Stderr, "HARNESS ERROR: schedule %v of %v does not replay deterministically:\n%+v\n%+v\n", sched, seq, o, o2)
					os.Exit(2)
				}
			}
			if len(seq) <= 1 {
				// the same schedule with a context that can never be cancelled: same observations
				plainContext = true
				o3 := execute(t, seq, sched)
				plainContext = false
				execs++
				if fmt.Sprint(o.Received, o.Closed, o.Violations, o.Enabled) != fmt.Sprint(o3.Received, o3.Closed, o3.Violations, o3.Enabled) {
					o.Violations = append(o.Violations, fmt.Sprintf("context-kind-changes-behaviour|with context.TODO(): received=%v closed=%v violations=%v; with a cancellable context that outlives the watch: received=%v closed=%v violations=%v", o3.Received, o3.Closed, o3.Violations, o.Received, o.Closed, o.Violations))
				}
			}
			if len(seq) <= 1 {
				// the same schedule over a source that does not close its channel on Stop
				lazySource = true
				o4 := execute(t, seq, sched)
				lazySource = false
				execs++
				for _, v := range o4.Violations {
					p := strings.SplitN(v, "|", 2)
					o.Violations = append(o.Violations, p[0]+"|over a source that does not close its channel when stopped: "+p[1])
				}
			}
			label := fmt.Sprintf("events=%v schedule=%v", seq, sched)
			rep.Count(sha(label), len(sched) > 0, fmt.Sprintf("received=%d closed=%v violations=%d", len(o.Received), o.Closed, len(o.Violations)))
			outcomes[fmt.Sprint(o.Received, o.Closed)]++
			if rep.WantSample() {
				rep.Sample(map[string]interface{}{"events": fmt.Sprint(seq), "schedule": sched, "trace": o.Trace, "received": o.Received})
			}
			for _, v := range o.Violations {
				p := strings.SplitN(v, "|", 2)
				rep.Violation("C20", p[0], label+": "+p[1], func() interface{} {
					return map[string]interface{}{"kind": "c20-schedule", "events": fmt.Sprint(seq), "schedule": sched, "trace": o.Trace, "replay": "VERIF_C20_EVENTS and VERIF_C20_SCHEDULE with scripts/run_c20.sh replay"}
				})
			}
			if len(sched) >= maxLen {
				return
			}
			for _, a := range o.Enabled {
				dfs(append(append([]action{}, sched...), a))
			}
		}
		dfs(nil)
	}
	rep.AddStates(nodes, execs)
	rep.Validated = execs
	rep.Extra["event_sequences"] = len(seqs)
	rep.Extra["schedules_executed"] = execs
	rep.Extra["distinct_consumer_observations"] = len(outcomes)
	rep.Extra["max_schedule_length"] = maxLen
	rep.Rule = fmt.Sprintf("stateless exploration of the real hijack watch (opened through the real hijack client) under a controlled scheduler built on testing/synctest: the harness owns the source (unbuffered channel, stop-aware send, ends when stopped) and the consumer; the watch is opened with a cancellable context that outlives it (cancelled only after the verdict; for event sequences of length <=1 every schedule is executed again with context.TODO() and must be observed identically, and once more over a source that does not close its channel when it is stopped, under the same oracle); after every action synctest.Wait() runs the relay goroutine to its next blocking point, so every schedule is deterministic (first 200 schedules executed twice and compared). Actions: offer next event, close source, consumer receive (only when something is deliverable), consumer Stop (<=2); every prefix of every schedule up to length %d is executed and judged as 'the consumer does nothing more from here'. Event sequences: all over {Added, Modified, Deleted, Bookmark, Error} up to length 2, length 3 over %v. Oracle: received = the source's events in order with equal type and equivalent built-in object (Error statuses relayed), no panic in the relay, and once the consumer stopped or the source ended the result channel is closed and no goroutine of the watch remains. Three further scenarios put a scheduling point inside Stop (a source whose Stop blocks until released; each in a child process): consumer/consumer, relay/consumer and consumer/relay overlapping Stop calls must neither panic nor leave the channel open. Non-trivial = non-empty schedule.", maxLen, third)
	rep.Assumptions = []string{"rendezvous granularity: between two channel operations the relay touches shared state only under Stop's mutex; a separate free-running -race pass of the same bodies (TestC20Race) guards that premise", "goroutine leaks are counted with runtime.NumGoroutine relative to the count before the watch was opened, inside the synctest bubble"}
	rep.Extra["overlapping_stop_scenarios"] = runOverlapScenarios(rep)
	race := os.Getenv("VERIF_C20_RACE")
	rep.Extra["free_running_race_pass"] = race
	switch race {
	case "race":
		out, _ := os.ReadFile(binDir() + "/c20.race.out")
		rep.Violation("C20", "data-race", "the free-running -race pass of the watch bodies reports a data race (the rendezvous-granularity premise does not hold)", func() interface{} {
			return map[string]interface{}{"kind": "c20-race", "race_detector_output": string(out)}
		})
	case "failed":
		out, _ := os.ReadFile(binDir() + "/c20.race.out")
		rep.Violation("C20", "free-running-pass-failed", "the free-running pass of the watch bodies failed (result channel never closed, or a panic)", func() interface{} {
			return map[string]interface{}{"kind": "c20-race", "output": string(out)}
		})
	}
	code := rep.Finish()
	if code != 0 {
		t.Fail()
	}
	os.WriteFile(binDir()+"/c20.exit", []byte(fmt.Sprint(code)), 0o644)
}

func sha(s string) [16]byte {
	var k [16]byte
	h := uint64(1469598103934665603)
	g := uint64(0x9E3779B97F4A7C15)
	for i := 0; i < len(s); i++ {
		h = (h ^ uint64(s[i])) * 1099511628211
		g = (g + uint64(s[i])) * 0xff51afd7ed558ccd
	}
	for i := 0; i < 8; i++ {
		k[i] = byte(h >> (8 * i))
		k[8+i] = byte(g >> (8 * i))
	}
	return k
}

var _ runtimeobj.Object

// TestC20Race is the free-running pass of the same bodies (real goroutines,
// real scheduler) meant to be run under -race: it guards the premise that the
// relay shares nothing unsynchronised between its channel operations.
func TestC20Race(t *testing.T) {
	world.GlobalInit()
	utilruntime.ReallyCrash = false
	for iter := 0; iter < 300; iter++ {
		kube, pc := kubefake.NewSimpleClientset(), pcfake.NewSimpleClientset()
		src := newRaceSource()
		pc.PrependWatchReactor("statefulsets", func(clienttesting.Action) (bool, watch.Interface, error) { return true, src, nil })
		w, err := helper.NewHijackClient(kube, pc).AppsV1().StatefulSets("default").Watch(context.TODO(), metav1.ListOptions{})
		if err != nil {
			t.Fatal(err)
		}
		done := make(chan struct{})
		go func() { // source
			for i, ty := range []watch.EventType{watch.Added, watch.Error, watch.Modified, watch.Bookmark} {
				select {
				case src.ch <- mkEvent(i, ty):
				case <-src.stopped:
					close(src.ch)
					return
				}
			}
			close(src.ch) // the source ends by itself
		}()
		go func() { // consumer
			n := 0
			for range w.ResultChan() {
				n++
				if n == iter%5 {
					w.Stop()
				}
			}
			close(done)
		}()
		if iter%3 == 0 {
			go w.Stop()
		}
		select {
		case <-done:
		case <-time.After(20 * time.Second):
			t.Fatalf("iteration %d: result channel never closed", iter)
		}
		w.Stop()
	}
}

type raceSource struct {
	ch      chan watch.Event
	stopped chan struct{}
	once    sync.Once
}

func newRaceSource() *raceSource {
	return &raceSource{ch: make(chan watch.Event), stopped: make(chan struct{})}
}
func (s *raceSource) ResultChan() <-chan watch.Event { return s.ch }
func (s *raceSource) Stop()                          { s.once.Do(func() { close(s.stopped) }) }

// ---- overlapping Stop calls (a scheduling point inside Stop) ----
//
// The schedules above treat Stop as atomic because the harness' source returns
// from Stop at once. Here the source's Stop blocks until released, which puts
// a scheduling point inside hijackWatch.Stop: a second Stop (from the consumer
// or from the relay's own deferred Stop) can start while the first is still
// inside. Each scenario runs in a child process, because a panic in the relay
// goroutine cannot be recovered.

type blockSource struct {
	ch      chan watch.Event
	entered chan struct{}
	release chan struct{}
}

func (s *blockSource) ResultChan() <-chan watch.Event { return s.ch }
func (s *blockSource) Stop() {
	select {
	case s.entered <- struct{}{}:
	default:
	}
	<-s.release
}

// settled waits until done is closed or a goroutine whose stack mentions marker is blocked on a mutex.
func settled(done chan struct{}, marker string) string {
	for i := 0; i < 20000; i++ {
		select {
		case <-done:
			return "returned"
		default:
		}
		buf := make([]byte, 1<<18)
		buf = buf[:runtime.Stack(buf, true)]
		for _, g := range strings.Split(string(buf), "\n\n") {
			if strings.Contains(g, marker) && (strings.Contains(g, "sync.(*Mutex).Lock") || strings.Contains(g, "[sync.Mutex.Lock") || strings.Contains(g, "semacquire")) {
				return "blocked-on-mutex"
			}
		}
		time.Sleep(time.Millisecond)
	}
	return "unsettled"
}

func overlapStopB(w watch.Interface, done chan struct{}, pan *string) {
	defer close(done)
	defer func() {
		if r := recover(); r != nil {
			*pan = fmt.Sprint(r)
		}
	}()
	w.Stop()
}

func TestC20OverlapChild(t *testing.T) {
	scenario := os.Getenv("VERIF_C20_OVERLAP")
	if scenario == "" {
		t.Skip("child of TestC20")
	}
	world.GlobalInit()
	utilruntime.ReallyCrash = false
	kube, pc := kubefake.NewSimpleClientset(), pcfake.NewSimpleClientset()
	src := &blockSource{ch: make(chan watch.Event), entered: make(chan struct{}, 4), release: make(chan struct{})}
	pc.PrependWatchReactor("statefulsets", func(clienttesting.Action) (bool, watch.Interface, error) { return true, src, nil })
	w, err := helper.NewHijackClient(kube, pc).AppsV1().StatefulSets("default").Watch(context.TODO(), metav1.ListOptions{})
	if err != nil {
		t.Fatal(err)
	}
	var panA, panB string
	doneA, doneB := make(chan struct{}), make(chan struct{})
	first := func() { // the first Stop enters the source's Stop and stays there
		switch scenario {
		case "consumer-consumer", "consumer-relay":
			go overlapStopB(w, doneA, &panA)
		case "relay-consumer":
			close(src.ch) // the source ends: the relay returns and its deferred Stop runs
			close(doneA)
		}
		select {
		case <-src.entered:
		case <-time.After(20 * time.Second):
			fmt.Println("RESULT harness first Stop never reached the source")
			os.Exit(3)
		}
	}
	first()
	state := ""
	switch scenario {
	case "consumer-consumer", "relay-consumer":
		go overlapStopB(w, doneB, &panB)
		state = settled(doneB, "overlapStopB")
	case "consumer-relay":
		close(src.ch) // the relay's deferred Stop starts while the consumer's is inside
		close(doneB)
		state = settled(make(chan struct{}), "(*hijackWatch).receive")
		if state == "unsettled" {
			state = "relay-returned-or-running"
		}
	}
	close(src.release)
	if scenario != "relay-consumer" && scenario != "consumer-relay" {
		close(src.ch)
	}
	for _, d := range []chan struct{}{doneA, doneB} {
		select {
		case <-d:
		case <-time.After(20 * time.Second):
			fmt.Println("RESULT violation stop-never-returns|a Stop call did not return after the source's Stop was released")
			os.Exit(0)
		}
	}
	if panA != "" || panB != "" {
		fmt.Printf("RESULT violation overlapping-stop-panic|%s: overlapping Stop calls panicked: %s%s (second Stop was %s)\n", scenario, panA, panB, state)
		os.Exit(0)
	}
	select {
	case _, ok := <-w.ResultChan():
		if ok {
			fmt.Println("RESULT violation unexpected-event|event delivered without a source event")
			os.Exit(0)
		}
	case <-time.After(20 * time.Second):
		fmt.Println("RESULT violation not-closed-after-stop|result channel not closed after overlapping Stop calls returned")
		os.Exit(0)
	}
	fmt.Printf("RESULT ok %s second Stop was %s\n", scenario, state)
}

func runOverlapScenarios(rep *explore.Report) int {
	n := 0
	for _, sc := range []string{"consumer-consumer", "relay-consumer", "consumer-relay"} {
		cmd := exec.Command(os.Args[0], "-test.run", "TestC20OverlapChild$", "-test.count=1", "-test.timeout", "3m")
		cmd.Env = append(os.Environ(), "VERIF_C20_OVERLAP="+sc)
		out, err := cmd.CombinedOutput()
		n++
		text := string(out)
		switch {
		case strings.Contains(text, "RESULT ok"):
		case strings.Contains(text, "RESULT violation"):
			line := text[strings.Index(text, "RESULT violation")+len("RESULT violation "):]
			line = strings.SplitN(line, "\n", 2)[0]
			p := strings.SplitN(line, "|", 2)
			rep.Violation("C20", p[0], "overlap scenario "+sc+": "+p[len(p)-1], func() interface{} {
				return map[string]interface{}{"kind": "c20-overlap", "scenario": sc, "output": text}
			})
		case strings.Contains(text, "panic:"):
			msg := text[strings.Index(text, "panic:"):]
			msg = strings.SplitN(msg, "\n", 2)[0]
			rep.Violation("C20", "overlapping-stop-panic", "overlap scenario "+sc+": the process died: "+msg, func() interface{} {
				return map[string]interface{}{"kind": "c20-overlap", "scenario": sc, "output": text}
			})
		default:
			fmt.Fprintf(os.Stderr, "HARNESS ERROR: overlap scenario %s: err=%v\n%s\n", sc, err, text)
			os.Exit(2)
		}
	}
	return n
}

func binDir() string {
	if d := os.Getenv("VERIF_C20_BIN"); d != "" {
		return d
	}
	return os.Getenv("VERIF_ROOT") + "/bin"
}
