//go:build go1.25

package watchmc

import (
	"context"
	"fmt"
	"os"
	"reflect"
	"regexp"
	"runtime"
	"strings"
	"sync"
	"testing"
	"testing/synctest"
	"time"

	asv1 "github.com/pingcap/advanced-statefulset/client/apis/apps/v1"
	"github.com/pingcap/advanced-statefulset/client/apis/apps/v1/helper"
	pcfake "github.com/pingcap/advanced-statefulset/client/client/clientset/versioned/fake"
	appsv1 "k8s.io/api/apps/v1"
	apiequality "k8s.io/apimachinery/pkg/api/equality"
	metav1 "k8s.io/apimachinery/pkg/apis/meta/v1"
	runtimeobj "k8s.io/apimachinery/pkg/runtime"
	utilruntime "k8s.io/apimachinery/pkg/util/runtime"
	"k8s.io/apimachinery/pkg/watch"
	kubefake "k8s.io/client-go/kubernetes/fake"
	clienttesting "k8s.io/client-go/testing"

	"verif/internal/explore"
	"verif/internal/world"
)

// ---- the source the harness owns ----

type source struct {
	ch      chan watch.Event
	stopped chan struct{}
	stops   int
	closed  bool
}

func newSource() *source { return &source{ch: make(chan watch.Event), stopped: make(chan struct{})} }

func (s *source) ResultChan() <-chan watch.Event { return s.ch }

// Stop is what the relay calls; like real watchers the source ends (closes its
// channel) once stopped. The harness performs the close as part of the Stop
// so that the schedule stays deterministic.
func (s *source) Stop() {
	s.stops++
	if s.stops == 1 {
		close(s.stopped)
	}
}

// ---- one execution ----

type action string

type obs struct {
	Received   []string // "Type:name" in order
	Closed     bool     // consumer observed closure
	Panics     []string
	Leaked     int
	Violations []string
	Enabled    []action
	Trace      []string
}

func eventName(i int, t watch.EventType) string { return fmt.Sprintf("%s:obj%d", t, i) }

func mkEvent(i int, t watch.EventType) watch.Event {
	if t == watch.Error {
		return watch.Event{Type: t, Object: &metav1.Status{Status: "Failure", Message: fmt.Sprintf("obj%d", i), Code: 410}}
	}
	s := &asv1.StatefulSet{TypeMeta: metav1.TypeMeta{Kind: "StatefulSet", APIVersion: "apps.pingcap.com/v1"}, ObjectMeta: metav1.ObjectMeta{Name: fmt.Sprintf("obj%d", i), Namespace: "default", ResourceVersion: fmt.Sprint(10 + i)}}
	if t != watch.Bookmark {
		r := int32(i)
		s.Spec.Replicas = &r
		s.Status.Replicas = int32(i)
	}
	return watch.Event{Type: t, Object: s}
}

var panics []string

var bubbleRe = regexp.MustCompile(`(?m)^goroutine \d+ \[[^\]]*synctest bubble`)

// bubbleGoroutines counts the goroutines of the current synctest bubble.
func bubbleGoroutines() int {
	buf := make([]byte, 1<<18)
	buf = buf[:runtime.Stack(buf, true)]
	return len(bubbleRe.FindAll(buf, -1))
}

func execute(t *testing.T, events []watch.EventType, sched []action) *obs {
	o := &obs{}
	synctest.Test(t, func(t *testing.T) {
		panics = nil
		kube, pc := kubefake.NewSimpleClientset(), pcfake.NewSimpleClientset()
		src := newSource()
		pc.PrependWatchReactor("statefulsets", func(clienttesting.Action) (bool, watch.Interface, error) { return true, src, nil })
		hc := helper.NewHijackClient(kube, pc)
		synctest.Wait()
		base := bubbleGoroutines()
		w, err := hc.AppsV1().StatefulSets("default").Watch(context.TODO(), metav1.ListOptions{})
		if err != nil {
			o.Violations = append(o.Violations, "watch-open-error|"+err.Error())
			return
		}
		rc := w.ResultChan()
		offered, pendingSenders, consumerStops := 0, 0, 0
		senderDone := make(chan struct{}, 8)
		reap := func() {
			for {
				select {
				case <-senderDone:
					pendingSenders--
				default:
					return
				}
			}
		}
		// the source ends once the relay stopped it
		srcEnd := func() {
			if src.stops > 0 && !src.closed && pendingSenders == 0 {
				src.closed = true
				close(src.ch)
			}
		}
		recvOne := func() bool {
			select {
			case ev, ok := <-rc:
				if !ok {
					o.Closed = true
					return true
				}
				name := "?"
				switch x := ev.Object.(type) {
				case *appsv1.StatefulSet:
					name = x.Name
					idx := len(o.Received)
					if idx < len(events) {
						want, _ := helper.ToBuiltinStatefulSet(mkEvent(idx, events[idx]).Object.(*asv1.StatefulSet))
						if events[idx] != watch.Error && !apiequality.Semantic.DeepEqual(want, x) {
							o.Violations = append(o.Violations, fmt.Sprintf("object-not-equivalent|event %d delivered an object that is not the built-in equivalent of the source's", idx))
						}
						if x.APIVersion != "apps/v1" {
							o.Violations = append(o.Violations, fmt.Sprintf("object-not-builtin|event %d delivered apiVersion %q", idx, x.APIVersion))
						}
					}
				case *metav1.Status:
					name = x.Message
				default:
					name = reflect.TypeOf(ev.Object).String()
				}
				o.Received = append(o.Received, fmt.Sprintf("%s:%s", ev.Type, name))
				return true
			default:
				return false
			}
		}
		step := func(a action) {
			switch {
			case a == "offer":
				ev := mkEvent(offered, events[offered])
				offered++
				pendingSenders++
				go func() {
					select {
					case src.ch <- ev:
					case <-src.stopped:
					}
					senderDone <- struct{}{}
				}()
			case a == "close":
				src.closed = true
				close(src.ch)
			case a == "recv":
				if !recvOne() {
					o.Violations = append(o.Violations, "harness|recv scheduled but nothing to receive")
				}
			case a == "stop":
				consumerStops++
				w.Stop()
			}
			synctest.Wait()
			reap()
			srcEnd()
			synctest.Wait()
			reap()
			o.Trace = append(o.Trace, fmt.Sprintf("%s -> received=%d closedSeen=%v", a, len(o.Received), o.Closed))
		}
		for _, a := range sched {
			step(a)
		}
		// enabled actions after this prefix
		if offered < len(events) && !src.closed && src.stops == 0 && pendingSenders == 0 {
			o.Enabled = append(o.Enabled, "offer")
		}
		if !src.closed && pendingSenders == 0 && src.stops == 0 {
			o.Enabled = append(o.Enabled, "close")
		}
		if consumerStops < 2 {
			o.Enabled = append(o.Enabled, "stop")
		}
		// ---- verdict for "the consumer ceases to act here" ----
		expect := []string{}
		for i := 0; i < offered; i++ {
			expect = append(expect, eventName(i, events[i]))
		}
		for i, r := range o.Received {
			if i >= len(expect) || r != expect[i] {
				o.Violations = append(o.Violations, fmt.Sprintf("order-or-content|received %v, source sent %v", o.Received, expect))
				break
			}
		}
		o.Panics = append(o.Panics, panics...)
		for _, p := range panics {
			o.Violations = append(o.Violations, "relay-panic|relay goroutine panicked: "+p)
		}
		// can the consumer receive something right now? (probed for real; the caller re-executes from scratch)
		nBefore := len(o.Received)
		probe := false
		if !o.Closed {
			probe = recvOne()
			synctest.Wait()
		}
		gotEvent := len(o.Received) > nBefore
		if probe && gotEvent {
			o.Enabled = append(o.Enabled, "recv")
		} else if probe {
			o.Enabled = append(o.Enabled, "recv") // observing the closure is a receive too
		}
		alive := func() int { return bubbleGoroutines() - base - pendingSenders }
		switch {
		case o.Closed:
			if n := alive(); n > 0 {
				o.Leaked = n
				o.Violations = append(o.Violations, fmt.Sprintf("goroutine-left-behind|result channel closed but %d goroutine(s) of the watch remain", n))
			}
			if consumerStops == 0 && len(panics) == 0 && nBefore != offered-pendingSenders {
				o.Violations = append(o.Violations, fmt.Sprintf("event-lost|the channel closed after the consumer had received %d of the %d events the relay took", nBefore, offered-pendingSenders))
			}
		case consumerStops > 0 && gotEvent:
			// a consumer that stopped need not drain: the relay was blocked on an undelivered event and would stay so
			o.Leaked = 1
			o.Violations = append(o.Violations, "goroutine-left-behind|after Stop, with the consumer idle, the relay stays blocked sending an undelivered event: the result channel is not closed and the goroutine remains")
		case consumerStops > 0:
			o.Violations = append(o.Violations, fmt.Sprintf("not-closed-after-stop|after Stop the result channel is neither closed nor deliverable; %d goroutine(s) of the watch remain", alive()))
		case src.closed && !probe:
			o.Violations = append(o.Violations, fmt.Sprintf("not-closed-after-source-end|the source ended, nothing is deliverable, but the result channel is not closed (%d goroutine(s) remain)", alive()))
		}
		// ---- cleanup so that the bubble can exit ----
		w.Stop()
		synctest.Wait()
		reap()
		if !src.closed {
			for pendingSenders > 0 {
				synctest.Wait()
				reap()
				if pendingSenders > 0 {
					select {
					case <-rc:
					default:
					}
				}
			}
			src.closed = true
			close(src.ch)
		}
		for i := 0; i < 8; i++ {
			synctest.Wait()
			select {
			case _, ok := <-rc:
				if !ok {
					i = 8
				}
			default:
			}
		}
		synctest.Wait()
		if n := bubbleGoroutines() - base; n > 0 {
			// last resort: report and let the goroutine dump tell what it is
			buf := make([]byte, 1<<16)
			buf = buf[:runtime.Stack(buf, true)]
			o.Violations = append(o.Violations, "stuck-after-cleanup|goroutines remain even after stopping, closing the source and draining")
			fmt.Fprintf(os.Stderr, "goroutines remain after cleanup:\n%s\n", buf)
		}
	})
	return o
}

func TestC20(t *testing.T) {
	world.GlobalInit()
	utilruntime.ReallyCrash = false
	utilruntime.PanicHandlers = []func(interface{}){func(r interface{}) { panics = append(panics, fmt.Sprint(r)) }}
	if os.Getenv("VERIF_ROOT") == "" {
		wd, _ := os.Getwd()
		os.Setenv("VERIF_ROOT", strings.TrimSuffix(wd, "/watchmc"))
	}
	thorough := explore.Tier() == "thorough"
	rep := explore.NewReport("C20", "model_checking")
	all := []watch.EventType{watch.Added, watch.Modified, watch.Deleted, watch.Bookmark, watch.Error}
	small := []watch.EventType{watch.Added, watch.Bookmark, watch.Error}
	var seqs [][]watch.EventType
	seqs = append(seqs, nil)
	for _, a := range all {
		seqs = append(seqs, []watch.EventType{a})
		for _, b := range all {
			seqs = append(seqs, []watch.EventType{a, b})
		}
	}
	third := small
	if thorough {
		third = all
	}
	for _, a := range third {
		for _, b := range third {
			for _, c := range third {
				seqs = append(seqs, []watch.EventType{a, b, c})
			}
		}
	}
	maxLen := 9
	if thorough {
		maxLen = 11
	}
	deadline := explore.Deadline(100*time.Second, 15*time.Minute)
	var execs, nodes int64
	outcomes := map[string]int{}
	for _, seq := range seqs {
		if time.Now().After(deadline) {
			rep.Exhaustive, rep.Cap = false, "deadline"
			break
		}
		var dfs func(sched []action)
		dfs = func(sched []action) {
			o := execute(t, seq, sched)
			execs++
			nodes++
			if execs <= 200 { // determinism gate
				o2 := execute(t, seq, sched)
				if fmt.Sprint(o.Received, o.Closed, o.Violations, o.Enabled) != fmt.Sprint(o2.Received, o2.Closed, o2.Violations, o2.Enabled) {
					fmt.Fprintf(os.Stderr, "HARNESS ERROR: schedule %v of %v does not replay deterministically:\n%+v\n%+v\n", sched, seq, o, o2)
					os.Exit(2)
				}
			}
			label := fmt.Sprintf("events=%v schedule=%v", seq, sched)
			rep.Count(sha(label), len(sched) > 0, fmt.Sprintf("received=%d closed=%v violations=%d", len(o.Received), o.Closed, len(o.Violations)))
			outcomes[fmt.Sprint(o.Received, o.Closed)]++
			if rep.WantSample() {
				rep.Sample(map[string]interface{}{"events": fmt.Sprint(seq), "schedule": sched, "trace": o.Trace, "received": o.Received})
			}
			for _, v := range o.Violations {
				p := strings.SplitN(v, "|", 2)
				rep.Violation("C20", p[0], label+": "+p[1], func() interface{} {
					return map[string]interface{}{"kind": "c20-schedule", "events": fmt.Sprint(seq), "schedule": sched, "trace": o.Trace, "replay": "VERIF_C20_EVENTS and VERIF_C20_SCHEDULE with scripts/run_c20.sh replay"}
				})
			}
			if len(sched) >= maxLen {
				return
			}
			for _, a := range o.Enabled {
				dfs(append(append([]action{}, sched...), a))
			}
		}
		dfs(nil)
	}
	rep.AddStates(nodes, execs)
	rep.Validated = execs
	rep.Extra["event_sequences"] = len(seqs)
	rep.Extra["schedules_executed"] = execs
	rep.Extra["distinct_consumer_observations"] = len(outcomes)
	rep.Extra["max_schedule_length"] = maxLen
	rep.Rule = fmt.Sprintf("stateless exploration of the real hijack watch (opened through the real hijack client) under a controlled scheduler built on testing/synctest: the harness owns the source (unbuffered channel, stop-aware send, ends when stopped) and the consumer; after every action synctest.Wait() runs the relay goroutine to its next blocking point, so every schedule is deterministic (first 200 schedules executed twice and compared). Actions: offer next event, close source, consumer receive (only when something is deliverable), consumer Stop (<=2); every prefix of every schedule up to length %d is executed and judged as 'the consumer does nothing more from here'. Event sequences: all over {Added, Modified, Deleted, Bookmark, Error} up to length 2, length 3 over %v. Oracle: received = the source's events in order with equal type and equivalent built-in object (Error statuses relayed), no panic in the relay, and once the consumer stopped or the source ended the result channel is closed and no goroutine of the watch remains. Non-trivial = non-empty schedule.", maxLen, third)
	rep.Assumptions = []string{"rendezvous granularity: between two channel operations the relay touches shared state only under Stop's mutex; a separate free-running -race pass of the same bodies (TestC20Race) guards that premise", "goroutine leaks are counted with runtime.NumGoroutine relative to the count before the watch was opened, inside the synctest bubble"}
	race := os.Getenv("VERIF_C20_RACE")
	rep.Extra["free_running_race_pass"] = race
	switch race {
	case "race":
		out, _ := os.ReadFile(os.Getenv("VERIF_ROOT") + "/bin/c20.race.out")
		rep.Violation("C20", "data-race", "the free-running -race pass of the watch bodies reports a data race (the rendezvous-granularity premise does not hold)", func() interface{} {
			return map[string]interface{}{"kind": "c20-race", "race_detector_output": string(out)}
		})
	case "failed":
		out, _ := os.ReadFile(os.Getenv("VERIF_ROOT") + "/bin/c20.race.out")
		rep.Violation("C20", "free-running-pass-failed", "the free-running pass of the watch bodies failed (result channel never closed, or a panic)", func() interface{} {
			return map[string]interface{}{"kind": "c20-race", "output": string(out)}
		})
	}
	code := rep.Finish()
	if code != 0 {
		t.Fail()
	}
	os.WriteFile(os.Getenv("VERIF_ROOT")+"/bin/c20.exit", []byte(fmt.Sprint(code)), 0o644)
}

func sha(s string) [16]byte {
	var k [16]byte
	h := uint64(1469598103934665603)
	g := uint64(0x9E3779B97F4A7C15)
	for i := 0; i < len(s); i++ {
		h = (h ^ uint64(s[i])) * 1099511628211
		g = (g + uint64(s[i])) * 0xff51afd7ed558ccd
	}
	for i := 0; i < 8; i++ {
		k[i] = byte(h >> (8 * i))
		k[8+i] = byte(g >> (8 * i))
	}
	return k
}

var _ runtimeobj.Object

// TestC20Race is the free-running pass of the same bodies (real goroutines,
// real scheduler) meant to be run under -race: it guards the premise that the
// relay shares nothing unsynchronised between its channel operations.
func TestC20Race(t *testing.T) {
	world.GlobalInit()
	utilruntime.ReallyCrash = false
	for iter := 0; iter < 300; iter++ {
		kube, pc := kubefake.NewSimpleClientset(), pcfake.NewSimpleClientset()
		src := newRaceSource()
		pc.PrependWatchReactor("statefulsets", func(clienttesting.Action) (bool, watch.Interface, error) { return true, src, nil })
		w, err := helper.NewHijackClient(kube, pc).AppsV1().StatefulSets("default").Watch(context.TODO(), metav1.ListOptions{})
		if err != nil {
			t.Fatal(err)
		}
		done := make(chan struct{})
		go func() { // source
			for i, ty := range []watch.EventType{watch.Added, watch.Error, watch.Modified, watch.Bookmark} {
				select {
				case src.ch <- mkEvent(i, ty):
				case <-src.stopped:
					close(src.ch)
					return
				}
			}
			close(src.ch) // the source ends by itself
		}()
		go func() { // consumer
			n := 0
			for range w.ResultChan() {
				n++
				if n == iter%5 {
					w.Stop()
				}
			}
			close(done)
		}()
		if iter%3 == 0 {
			go w.Stop()
		}
		select {
		case <-done:
		case <-time.After(20 * time.Second):
			t.Fatalf("iteration %d: result channel never closed", iter)
		}
		w.Stop()
	}
}

type raceSource struct {
	ch      chan watch.Event
	stopped chan struct{}
	once    sync.Once
}

func newRaceSource() *raceSource {
	return &raceSource{ch: make(chan watch.Event), stopped: make(chan struct{})}
}
func (s *raceSource) ResultChan() <-chan watch.Event { return s.ch }
func (s *raceSource) Stop()                          { s.once.Do(func() { close(s.stopped) }) }
