package main

import (
	"crypto/sha256"
	"fmt"
	"sort"
	"strings"
	"time"

	asv1 "github.com/pingcap/advanced-statefulset/client/apis/apps/v1"
	v1 "k8s.io/api/core/v1"
	metav1 "k8s.io/apimachinery/pkg/apis/meta/v1"
	"k8s.io/apimachinery/pkg/labels"
	"k8s.io/apimachinery/pkg/types"
	"k8s.io/client-go/tools/cache"

	"verif/internal/explore"
	"verif/internal/gen"
	"verif/internal/world"
)

// C16: no lost wake-ups. Exhaustive event-shape enumeration on the real
// handlers (captured at registration) and the real worker step on a recording queue.

type recQueue struct {
	items    []interface{}
	log      []string
	requeues int // consecutive rate-limited requeues since the last Forget (what a real rate limiter counts)
}

func (q *recQueue) Add(item interface{}) {
	q.log = append(q.log, "Add "+item.(string))
	q.items = append(q.items, item)
}
func (q *recQueue) Len() int { return len(q.items) }
func (q *recQueue) Get() (interface{}, bool) {
	if len(q.items) == 0 {
		return nil, true
	}
	it := q.items[0]
	q.items = q.items[1:]
	q.log = append(q.log, "Get "+it.(string))
	return it, false
}
func (q *recQueue) Done(item interface{}) { q.log = append(q.log, "Done "+item.(string)) }
func (q *recQueue) ShutDown()             {}
func (q *recQueue) ShutDownWithDrain()    {}
func (q *recQueue) ShuttingDown() bool    { return false }
func (q *recQueue) AddAfter(item interface{}, d time.Duration) {
	q.log = append(q.log, "AddAfter "+item.(string))
}
func (q *recQueue) AddRateLimited(item interface{}) {
	q.requeues++
	q.log = append(q.log, "AddRateLimited "+item.(string))
}
func (q *recQueue) Forget(item interface{}) {
	q.requeues = 0
	q.log = append(q.log, "Forget "+item.(string))
}
func (q *recQueue) NumRequeues(item interface{}) int { return q.requeues }

type podShape struct {
	Owner  string // none | A | Astale | Akind | Anonctrl | B | C(unknown set)
	Labels string // A | B | both | none | nil
	Term   bool
}

func (s podShape) String() string {
	return fmt.Sprintf("owner=%s labels=%s term=%v", s.Owner, s.Labels, s.Term)
}

// c16Selectors: how the two sets in the lister select. The labels a pod shape carries (app=web, tier=db, both,
// unrelated, none) meet every operator both ways.
var c16Selectors = []string{"disjoint", "overlapping", "expressions In/Exists", "expressions DoesNotExist/NotIn", "disjoint, next to a set with an unusable selector"}

func c16Sets(overlap string) (*asv1.StatefulSet, *asv1.StatefulSet) {
	a := gen.Spec{Name: "web", Replicas: 1, Policy: "Parallel", Strategy: gen.RU(0), Limit: 10, Template: 1}.Build()
	b := gen.Spec{Name: "db", Replicas: 1, Policy: "Parallel", Strategy: gen.RU(0), Limit: 10, Template: 1}.Build()
	b.Spec.Selector = &metav1.LabelSelector{MatchLabels: map[string]string{"tier": "db"}}
	switch overlap {
	case "overlapping":
		b.Spec.Selector = &metav1.LabelSelector{MatchLabels: map[string]string{"app": "web"}}
	case "expressions In/Exists":
		a.Spec.Selector = &metav1.LabelSelector{MatchExpressions: []metav1.LabelSelectorRequirement{{Key: "app", Operator: metav1.LabelSelectorOpIn, Values: []string{"web", "web2"}}}}
		b.Spec.Selector = &metav1.LabelSelector{MatchExpressions: []metav1.LabelSelectorRequirement{{Key: "tier", Operator: metav1.LabelSelectorOpExists}}}
	case "expressions DoesNotExist/NotIn":
		// web: app=web and no tier label; db: any pod whose app label is not web (pods without an app label included)
		a.Spec.Selector = &metav1.LabelSelector{MatchLabels: map[string]string{"app": "web"}, MatchExpressions: []metav1.LabelSelectorRequirement{{Key: "tier", Operator: metav1.LabelSelectorOpDoesNotExist}}}
		b.Spec.Selector = &metav1.LabelSelector{MatchExpressions: []metav1.LabelSelectorRequirement{{Key: "app", Operator: metav1.LabelSelectorOpNotIn, Values: []string{"web"}}}}
	}
	return a, b
}

func (s podShape) build(a, b *asv1.StatefulSet, rv string) *v1.Pod {
	p := &v1.Pod{ObjectMeta: metav1.ObjectMeta{Name: "web-0", Namespace: world.NS, UID: "uid-p", ResourceVersion: rv}}
	t := true
	switch s.Owner {
	case "A":
		p.OwnerReferences = []metav1.OwnerReference{{APIVersion: "apps.pingcap.com/v1", Kind: "StatefulSet", Name: a.Name, UID: a.UID, Controller: &t}}
	case "BrefThenA":
		// several owner references: a plain (non-controller) reference to db first, the controller reference to web second
		p.OwnerReferences = []metav1.OwnerReference{{APIVersion: "apps.pingcap.com/v1", Kind: "StatefulSet", Name: b.Name, UID: b.UID},
			{APIVersion: "apps.pingcap.com/v1", Kind: "StatefulSet", Name: a.Name, UID: a.UID, Controller: &t}}
	case "Aoldversion":
		// written by an earlier build of the controller under the older served API version; same set, same UID
		p.OwnerReferences = []metav1.OwnerReference{{APIVersion: "apps.pingcap.com/v1alpha1", Kind: "StatefulSet", Name: a.Name, UID: a.UID, Controller: &t}}
	case "Astale":
		p.OwnerReferences = []metav1.OwnerReference{{APIVersion: "apps.pingcap.com/v1", Kind: "StatefulSet", Name: a.Name, UID: "uid-old-incarnation", Controller: &t}}
	case "Akind":
		p.OwnerReferences = []metav1.OwnerReference{{APIVersion: "apps/v1", Kind: "ReplicaSet", Name: a.Name, UID: a.UID, Controller: &t}}
	case "Anonctrl":
		p.OwnerReferences = []metav1.OwnerReference{{APIVersion: "apps.pingcap.com/v1", Kind: "StatefulSet", Name: a.Name, UID: a.UID}}
	case "B":
		p.OwnerReferences = []metav1.OwnerReference{{APIVersion: "apps.pingcap.com/v1", Kind: "StatefulSet", Name: b.Name, UID: b.UID, Controller: &t}}
	case "C":
		p.OwnerReferences = []metav1.OwnerReference{{APIVersion: "apps.pingcap.com/v1", Kind: "StatefulSet", Name: "gone", UID: types.UID("uid-gone"), Controller: &t}}
	}
	switch s.Labels {
	case "A":
		p.Labels = map[string]string{"app": "web"}
	case "B":
		p.Labels = map[string]string{"tier": "db"}
	case "both":
		p.Labels = map[string]string{"app": "web", "tier": "db"}
	case "none":
		p.Labels = map[string]string{"x": "y"}
	}
	if s.Term {
		p.DeletionTimestamp = &gen.T0
	}
	return p
}

// reference model ---------------------------------------------------------

func ctrlRef(p *v1.Pod) *metav1.OwnerReference {
	for i := range p.OwnerReferences {
		if r := p.OwnerReferences[i]; r.Controller != nil && *r.Controller {
			return &r
		}
	}
	return nil
}

// ownerSet: the set (in the lister) that controls the pod, "" if none.
func ownerSet(p *v1.Pod, sets []*asv1.StatefulSet) string {
	r := ctrlRef(p)
	if r == nil || r.Kind != "StatefulSet" {
		return ""
	}
	for _, s := range sets {
		if s.Name == r.Name && s.UID == r.UID {
			return world.NS + "/" + s.Name
		}
	}
	return ""
}

func matching(p *v1.Pod, sets []*asv1.StatefulSet) []string {
	var out []string
	if len(p.Labels) == 0 {
		return nil
	}
	for _, s := range sets {
		sel, _ := metav1.LabelSelectorAsSelector(s.Spec.Selector)
		if sel.Matches(labels.Set(p.Labels)) {
			out = append(out, world.NS+"/"+s.Name)
		}
	}
	return out
}

type expect struct{ required, allowed map[string]bool }

func newExpect() expect { return expect{map[string]bool{}, map[string]bool{}} }
func (e expect) req(ks ...string) {
	for _, k := range ks {
		if k != "" {
			e.required[k], e.allowed[k] = true, true
		}
	}
}
func (e expect) allow(ks ...string) {
	for _, k := range ks {
		if k != "" {
			e.allowed[k] = true
		}
	}
}

func refAdd(p *v1.Pod, sets []*asv1.StatefulSet) expect {
	e := newExpect()
	if ctrlRef(p) != nil {
		e.req(ownerSet(p, sets))
		return e
	}
	if p.DeletionTimestamp == nil {
		e.req(matching(p, sets)...)
	} else {
		e.allow(matching(p, sets)...) // an orphan that is already going away: don't care
	}
	return e
}

func refDelete(p *v1.Pod, sets []*asv1.StatefulSet) expect {
	e := newExpect()
	if ctrlRef(p) != nil {
		e.req(ownerSet(p, sets))
		return e
	}
	e.allow(matching(p, sets)...)
	return e
}

func sameRef(a, b *metav1.OwnerReference) bool {
	if a == nil || b == nil {
		return a == b
	}
	return a.UID == b.UID && a.Kind == b.Kind && a.Name == b.Name
}

func sameLabels(a, b map[string]string) bool {
	if len(a) != len(b) {
		return false
	}
	for k, v := range a {
		if b[k] != v {
			return false
		}
	}
	return true
}

func refUpdate(old, cur *v1.Pod, sets []*asv1.StatefulSet) expect {
	e := newExpect()
	if old.ResourceVersion == cur.ResourceVersion {
		// a resync notification: nothing is required; anything the different-version case allows is allowed
		x := refUpdate(withRV(old, "0"), cur, sets)
		for k := range x.allowed {
			e.allow(k)
		}
		return e
	}
	oc, cc := ctrlRef(old), ctrlRef(cur)
	changed := !sameRef(oc, cc)
	if changed && oc != nil {
		e.req(ownerSet(old, sets))
	}
	if cc != nil {
		e.req(ownerSet(cur, sets))
		return e
	}
	if changed || !sameLabels(old.Labels, cur.Labels) {
		e.req(matching(cur, sets)...)
	} else {
		e.allow(matching(cur, sets)...)
	}
	return e
}

func withRV(p *v1.Pod, rv string) *v1.Pod {
	n := p.DeepCopy()
	n.ResourceVersion = rv
	return n
}

// -------------------------------------------------------------------------

func keysOf(log []string) map[string]bool {
	out := map[string]bool{}
	for _, l := range log {
		if strings.HasPrefix(l, "Add ") {
			out[strings.TrimPrefix(l, "Add ")] = true
		}
	}
	return out
}

func setStr(m map[string]bool) string {
	var l []string
	for k := range m {
		l = append(l, k)
	}
	sort.Strings(l)
	return "{" + strings.Join(l, ",") + "}"
}

func init() {
	register("c16", "no lost wake-ups: event handlers and worker requeue discipline", func([]string) int {
		rep := explore.NewReport("C16", "model_checking")
		rep.Rule = "exhaustive event shapes on the real handlers registered by the real constructor: sets web and db in the lister with selectors {app=web | tier=db; both app=web; app In (web,web2) | tier Exists; app=web and tier DoesNotExist | app NotIn (web); the first again next to a third set whose selector cannot be parsed}; pod shapes = owner{none, web right UID, web right UID under the older API version v1alpha1, web stale UID, ReplicaSet named web, non-controller ref, db, unknown set, plain ref to db followed by the controller ref to web} x labels{web, db, both, unrelated, nil} x terminating; events (each delivered once with a clean rate limiter and once while failures of the key are on record) = add(shape), update(old shape x new shape x same/different resourceVersion), delete(object), delete(tombstone with pod), delete(tombstone with junk), delete(junk); set add / delete / tombstone and update by every kind of edit and its undo (pause annotation, delete-slots, other annotation, label, replicas, template, status, deletion timestamp, finalizer, owner reference); worker = every success/failure sequence of length <=4 and every run of 5..40 consecutive failures followed by a success (failure = InternalError on the first API call; the recording queue counts requeues like a real rate limiter); and a worker step with an InternalError or a lost response at every call position of the reconcile of every state of a seed set (C09's seeds, a shallow population grid, owned pods next to orphans and pods to release): when the work is left undone the key is put back with backoff. Oracle: required subset of enqueued subset of allowed keys by a reference function written from the property; failure => AddRateLimited and no Forget, success => Forget, Done always. Non-trivial = the reference requires or allows at least one key."
		rep.Assumptions = []string{"selectors in the lister are valid ones", "orphan update without label/owner change and orphan delete are don't-care (property does not fix them)"}
		var owners = []string{"none", "A", "Aoldversion", "Astale", "Akind", "Anonctrl", "B", "C", "BrefThenA"}
		var labs = []string{"A", "B", "both", "none", "nil"}
		var shapes []podShape
		for _, o := range owners {
			for _, l := range labs {
				for _, t := range []bool{false, true} {
					shapes = append(shapes, podShape{o, l, t})
				}
			}
		}
		var events int64
		for _, overlap := range c16Selectors {
			w := world.New()
			a, b := c16Sets(overlap)
			sets := []*asv1.StatefulSet{a, b}
			st := world.NewState()
			st.API.Sets[a.Name], st.API.Sets[b.Name] = a, b
			if strings.Contains(overlap, "unusable selector") {
				// a third set whose selector cannot be parsed (the CRD admits it): it matches nothing and must not stand in
				// the way of the others
				bad := gen.Spec{Name: "broken", Replicas: 1, Policy: "Parallel", Strategy: gen.RU(0), Limit: 10, Template: 1}.Build()
				bad.Spec.Selector = &metav1.LabelSelector{MatchExpressions: []metav1.LabelSelectorRequirement{{Key: "app", Operator: "Bogus", Values: []string{"web"}}}}
				st.API.Sets[bad.Name] = bad
			}
			st.SyncCaches()
			w.Load(st)
			if len(w.PodHandlers) != 1 || len(w.SetHandlers) != 1 {
				rep.Violation("C16", "handler-registration", fmt.Sprintf("constructor registered %d pod handlers and %d set handlers", len(w.PodHandlers), len(w.SetHandlers)), nil)
				continue
			}
			ph, sh := w.PodHandlers[0], w.SetHandlers[0]
			q := &recQueue{}
			w.Ctrl.VerifSetQueue(q)
			var fireOnce func(label string, e expect, f func(), pending int)
			fire := func(label string, e expect, f func()) {
				// with no failure on record for the key, and while an earlier failed reconcile of the key is being retried
				// (the rate limiter remembers failures until the next success): an event is an event either way
				fireOnce(label, e, f, 0)
				fireOnce(label+" [while a failed reconcile of the key awaits or runs its retry]", e, f, 2)
			}
			fireOnce = func(label string, e expect, f func(), pending int) {
				q.log, q.items = nil, nil
				q.requeues = pending
				defer func() { q.requeues = 0 }()
				var pan interface{}
				func() {
					defer func() { pan = recover() }()
					f()
				}()
				events++
				got := keysOf(q.log)
				h := sha256.Sum256([]byte(fmt.Sprint(overlap) + label))
				var k [16]byte
				copy(k[:], h[:16])
				rep.Count(k, len(e.allowed) > 0, fmt.Sprintf("enqueued %d keys", len(got)))
				if rep.WantSample() {
					rep.Sample(map[string]interface{}{"event": label, "overlapping_selectors": overlap, "enqueued": setStr(got), "required": setStr(e.required), "allowed": setStr(e.allowed)})
				}
				replay := func() interface{} {
					return map[string]interface{}{"kind": "c16-event", "event": label, "overlapping_selectors": overlap, "queue_log": q.log}
				}
				if pan != nil {
					rep.Violation("C16", "handler-panic", fmt.Sprintf("%s (overlap=%v): handler panicked: %v", label, overlap, pan), replay)
					return
				}
				for k := range e.required {
					if !got[k] {
						rep.Violation("C16", "lost-wakeup", fmt.Sprintf("%s (overlap=%v): %s was not enqueued; enqueued %s", label, overlap, k, setStr(got)), replay)
					}
				}
				for k := range got {
					if !e.allowed[k] {
						rep.Violation("C16", "spurious-wakeup", fmt.Sprintf("%s (overlap=%v): %s enqueued but the event is unrelated to it; allowed %s", label, overlap, k, setStr(e.allowed)), replay)
					}
				}
			}
			for _, s := range shapes {
				p := s.build(a, b, "5")
				fire("add pod "+s.String(), refAdd(p, sets), func() { ph.OnAdd(p, false) })
				fire("delete pod "+s.String(), refDelete(p, sets), func() { ph.OnDelete(p) })
				fire("delete tombstone(pod "+s.String()+")", refDelete(p, sets), func() {
					ph.OnDelete(cache.DeletedFinalStateUnknown{Key: world.NS + "/" + p.Name, Obj: p})
				})
				for _, s2 := range shapes {
					for _, rv := range []string{"5", "6"} {
						p2 := s2.build(a, b, rv)
						fire(fmt.Sprintf("update pod [%s] -> [%s] rv %s->%s", s, s2, "5", rv), refUpdate(p, p2, sets), func() { ph.OnUpdate(p, p2) })
					}
				}
			}
			fire("delete tombstone(junk)", newExpect(), func() { ph.OnDelete(cache.DeletedFinalStateUnknown{Key: "default/x", Obj: "junk"}) })
			fire("delete junk", newExpect(), func() { ph.OnDelete("junk") })
			// set events
			for _, s := range sets {
				e := newExpect()
				e.req(world.NS + "/" + s.Name)
				s2 := s.DeepCopy()
				s2.ResourceVersion = "9"
				s2.Status.Replicas = 3
				// every kind of edit, one at a time (resourceVersion always moves)
				edits := map[string]func(x *asv1.StatefulSet){
					"pause on":           func(x *asv1.StatefulSet) { x.Annotations = map[string]string{"paused-reconcile": "true"} },
					"slots":              func(x *asv1.StatefulSet) { x.Annotations = map[string]string{"delete-slots": "[0]"} },
					"other annotation":   func(x *asv1.StatefulSet) { x.Annotations = map[string]string{"note": "x"} },
					"label":              func(x *asv1.StatefulSet) { x.Labels = map[string]string{"team": "x"} },
					"replicas":           func(x *asv1.StatefulSet) { r := int32(4); x.Spec.Replicas = &r; x.Generation++ },
					"template":           func(x *asv1.StatefulSet) { x.Spec.Template.Spec.Containers[0].Image = "img:T2"; x.Generation++ },
					"status only":        func(x *asv1.StatefulSet) { x.Status.ReadyReplicas = 1 },
					"deletion timestamp": func(x *asv1.StatefulSet) { x.DeletionTimestamp = &gen.T0 },
					"finalizer":          func(x *asv1.StatefulSet) { x.Finalizers = []string{"keep"} },
					"owner reference": func(x *asv1.StatefulSet) {
						x.OwnerReferences = []metav1.OwnerReference{{Kind: "X", Name: "x", UID: "u"}}
					},
				}
				var names []string
				for n := range edits {
					names = append(names, n)
				}
				sort.Strings(names)
				for _, n := range names {
					cur := s.DeepCopy()
					cur.ResourceVersion = "10"
					edits[n](cur)
					fire("update set "+s.Name+": "+n, e, func() { sh.OnUpdate(s, cur) })
					// and the edit undone (e.g. the pause annotation removed again)
					back := s.DeepCopy()
					back.ResourceVersion = "11"
					fire("update set "+s.Name+": undo "+n, e, func() { sh.OnUpdate(cur, back) })
				}
				fire("add set "+s.Name, e, func() { sh.OnAdd(s, false) })
				fire("update set "+s.Name, e, func() { sh.OnUpdate(s, s2) })
				fire("update set (same rv) "+s.Name, e, func() { sh.OnUpdate(s, s) })
				fire("delete set "+s.Name, e, func() { sh.OnDelete(s) })
				fire("delete tombstone(set "+s.Name+")", e, func() {
					sh.OnDelete(cache.DeletedFinalStateUnknown{Key: world.NS + "/" + s.Name, Obj: s})
				})
			}
			// worker discipline: all success/failure sequences up to length 4
			key := world.NS + "/web"
			type wseq struct {
				n    int
				mask uint64
			}
			var wseqs []wseq
			for n := 1; n <= 4; n++ {
				for mask := uint64(0); mask < 1<<n; mask++ {
					wseqs = append(wseqs, wseq{n, mask})
				}
			}
			// long outages: k consecutive failures (k up to 40) followed by a success
			for k := 5; k <= 40; k++ {
				wseqs = append(wseqs, wseq{k + 1, 1<<k - 1})
			}
			for _, ws := range wseqs {
				{
					n, mask := ws.n, ws.mask
					q.requeues = 0
					w.Load(st)
					var seq []string
					bad := ""
					for i := 0; i < n && bad == ""; i++ {
						fail := mask&(1<<i) != 0
						q.log, q.items = nil, []interface{}{key}
						var plan world.FaultPlan
						if fail {
							sel, _ := metav1.LabelSelectorAsSelector(a.Spec.Selector)
							plan = world.FaultPlan{"list controllerrevisions [" + sel.String() + "] #0": world.FErr500}
							seq = append(seq, "fail")
						} else {
							seq = append(seq, "ok")
						}
						w.FillCaches()
						w.Begin(plan)
						cont := w.Ctrl.VerifProcessNextWorkItem()
						w.End()
						events++
						l := strings.Join(q.log, "; ")
						has := func(s string) bool { return strings.Contains(l, s+" "+key) }
						switch {
						case !cont:
							bad = "worker step reported shutdown"
						case !has("Done"):
							bad = "key not marked Done: " + l
						case fail && (!has("AddRateLimited") || has("Forget")):
							bad = "failed reconcile not requeued with backoff (or backoff cleared): " + l
						case !fail && (!has("Forget") || has("AddRateLimited")):
							bad = "successful reconcile did not clear its backoff (or was requeued): " + l
						}
					}
					h := sha256.Sum256([]byte(fmt.Sprint("worker", overlap, n, mask)))
					var k [16]byte
					copy(k[:], h[:16])
					rep.Count(k, true, "worker sequence")
					if bad != "" {
						rep.Violation("C16", "worker-requeue", fmt.Sprintf("sequence %v: %s", seq, bad), func() interface{} {
							return map[string]interface{}{"kind": "c16-worker", "sequence": seq, "queue_log": q.log}
						})
					}
				}
			}
		}
		// a failure at any call position of the reconcile, seen through the real worker step: if the call failed and
		// the work it stood for is left undone (state differs from the fault-free outcome), the key must be put back
		// with backoff and the backoff must not be cleared
		{
			w := world.New()
			q := &recQueue{}
			w.Ctrl.VerifSetQueue(q)
			key := world.NS + "/web"
			step := func(st *world.State, plan world.FaultPlan) ([]*world.Call, *world.State, string) {
				w.Lag = 0
				w.Load(st.Clone())
				q.requeues, q.log, q.items = 0, nil, []interface{}{key}
				w.FillCaches()
				w.Begin(plan)
				w.Ctrl.VerifProcessNextWorkItem()
				calls := w.End()
				events++
				return calls, w.S.Clone(), strings.Join(q.log, "; ")
			}
			seeds := c09ExtraSeeds(true)
			for _, sd := range searchSeeds([]gridOpts{{N: 3, MaxR: 2, MaxSlots: 1, Policies: []string{"OrderedReady", "Parallel"}, Strategies: []gen.Strategy{gen.RU(0)}, Histories: []history{histories[1]}, DMin: 0, DMax: 1, Limit: 10}}) {
				seeds = append(seeds, sd)
			}
			// owned pods next to an orphan outside the desired set and next to an owned pod to release
			for _, pol := range []string{"OrderedReady", "Parallel"} {
				orphan := gen.Cell{Present: true, Phase: v1.PodRunning, Ready: true, Rev: 0, Owner: "none"}
				nomatch := gen.Cell{Present: true, Phase: v1.PodRunning, Ready: true, Rev: 0, NoMatch: true}
				for _, cells := range [][]gen.Cell{{gen.ReadyAt(0), gen.ReadyAt(0), orphan}, {gen.ReadyAt(0), gen.ReadyAt(0), nomatch}, {gen.ReadyAt(0), orphan, orphan}} {
					sc := gen.Scenario{Spec: gen.Spec{Name: "web", Replicas: 2, Policy: pol, Strategy: gen.RU(0), Limit: 10, Template: 1}, Revs: []int{1}, Cur: 0, Cells: cells}
					seeds = append(seeds, explore.Seed{Label: sc.String(), State: sc.Build(w)})
				}
			}
			var positions int64
			for _, sd := range seeds {
				baseCalls, baseAfter, _ := step(sd.State, nil)
				for _, c := range baseCalls {
					for _, kind := range []string{world.FErr500, world.FTimeout} {
						if kind == world.FTimeout && !c.IsWrite() {
							continue
						}
						positions++
						_, after, l := step(sd.State, world.FaultPlan{c.ID: kind})
						has := func(x string) bool { return strings.Contains(l, x+" "+key) }
						label := fmt.Sprintf("%s, worker step with %s=%s", sd.Label, c.ID, kind)
						h := sha256.Sum256([]byte(label))
						var k [16]byte
						copy(k[:], h[:16])
						rep.Count(k, true, "worker step with a failing call")
						if after.Key() == baseAfter.Key() {
							continue // absorbed: same outcome as without the failure
						}
						if !has("AddRateLimited") || has("Forget") {
							rep.Violation("C16", "worker-requeue", fmt.Sprintf("%s: the call failed, its work is left undone, and the key was not put back with backoff: %s", label, l), func() interface{} {
								return map[string]interface{}{"kind": "c16-worker-fault", "seed": sd.Label, "fault": c.ID + "=" + kind, "queue_log": l}
							})
						}
					}
				}
			}
			rep.Extra["worker_fault_positions"] = positions
			rep.Extra["worker_fault_seeds"] = len(seeds)
		}
		rep.AddStates(events, events)
		rep.Validated = events
		return rep.Finish()
	})
}
