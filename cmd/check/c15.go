package main

import (
	"encoding/json"
	"fmt"
	appsv1 "k8s.io/api/apps/v1"
	"k8s.io/apimachinery/pkg/runtime"
	"math"
	"os"
	"strings"
	"sync"
	"time"

	asv1 "github.com/pingcap/advanced-statefulset/client/apis/apps/v1"
	v1 "k8s.io/api/core/v1"
	metav1 "k8s.io/apimachinery/pkg/apis/meta/v1"

	"verif/internal/explore"
	"verif/internal/gen"
	"verif/internal/oracle"
	"verif/internal/world"
)

// C15: no CRD-admitted object panics a reconcile.

type dimVal struct {
	Label string
	Val   interface{} // nil: field absent
}

type J = map[string]interface{}

func c15Dims(thorough bool) map[string][]dimVal {
	tmplOK := J{"metadata": J{"labels": J{"app": "web"}}, "spec": J{"containers": []interface{}{J{"name": "c", "image": "img:T1"}}}}
	tmplNoLabels := J{"spec": J{"containers": []interface{}{J{"name": "c", "image": "img:T1"}}}}
	tmplOther := J{"metadata": J{"labels": J{"app": "other"}}, "spec": J{"containers": []interface{}{J{"name": "c", "image": "img:T1"}}}}
	d := map[string][]dimVal{
		"replicas":             {{"absent", nil}, {"0", 0}, {"1", 1}, {"3", 3}},
		"revisionHistoryLimit": {{"absent", nil}, {"0", 0}, {"1", 1}},
		"selector": {{"matchLabels", J{"matchLabels": J{"app": "web"}}}, {"empty", J{}},
			{"expr", J{"matchExpressions": []interface{}{J{"key": "app", "operator": "In", "values": []interface{}{"web"}}}}},
			{"badexpr", J{"matchExpressions": []interface{}{J{"key": "app", "operator": "Bogus", "values": []interface{}{"web"}}}}}},
		"template":            {{"ok", tmplOK}, {"empty", J{}}, {"nolabels", tmplNoLabels}, {"otherlabels", tmplOther}},
		"podManagementPolicy": {{"absent", nil}, {"OrderedReady", "OrderedReady"}, {"Parallel", "Parallel"}, {"bogus", "Bogus"}},
		"updateStrategy": {{"absent", nil}, {"{}", J{}}, {"RU-only", J{"type": "RollingUpdate"}}, {"RU{}", J{"type": "RollingUpdate", "rollingUpdate": J{}}},
			{"RU-1", J{"type": "RollingUpdate", "rollingUpdate": J{"partition": -1}}}, {"RU0", J{"type": "RollingUpdate", "rollingUpdate": J{"partition": 0}}},
			{"RU1", J{"type": "RollingUpdate", "rollingUpdate": J{"partition": 1}}}, {"RU5", J{"type": "RollingUpdate", "rollingUpdate": J{"partition": 5}}},
			{"RUmin", J{"type": "RollingUpdate", "rollingUpdate": J{"partition": -2147483648}}}, {"RUmax", J{"type": "RollingUpdate", "rollingUpdate": J{"partition": 2147483647}}},
			{"OnDelete", J{"type": "OnDelete"}}, {"OnDelete+ru", J{"type": "OnDelete", "rollingUpdate": J{"partition": 1}}}, {"OnDelete+ru{}", J{"type": "OnDelete", "rollingUpdate": J{}}},
			{"bogus", J{"type": "Bogus"}}, {"bogus+ru{}", J{"type": "Bogus", "rollingUpdate": J{}}}, {"typeless-ru", J{"rollingUpdate": J{"partition": 1}}}, {"typeless-ru{}", J{"rollingUpdate": J{}}}},
		"volumeClaimTemplates": {{"absent", nil}, {"[{}]", []interface{}{J{}}}, {"named", []interface{}{J{"metadata": J{"name": "data"}}}},
			{"dup", []interface{}{J{"metadata": J{"name": "data"}}, J{"metadata": J{"name": "data"}}}}},
		"annotations": {{"absent", nil}, {"slots[1]", J{"delete-slots": "[1]"}}, {"slots[-1]", J{"delete-slots": "[-1]"}}, {"slots-garbage", J{"delete-slots": "[1,"}},
			{"slots-huge", J{"delete-slots": "[0,2147483647]"}}, {"pause-TRUE", J{"paused-reconcile": "TRUE"}}, {"pause-1", J{"paused-reconcile": "1"}}},
		"status": {{"absent", nil}, {"dangling", J{"currentRevision": "web-gone", "updateRevision": "web-gone2", "replicas": 7, "currentReplicas": 9}},
			{"collision", J{"collisionCount": 3, "observedGeneration": 99}}},
		"spec": {{"present", true}, {"absent", nil}},
	}
	if !thorough {
		d["annotations"] = []dimVal{d["annotations"][0], d["annotations"][1], d["annotations"][2], d["annotations"][3]}
		d["replicas"] = []dimVal{d["replicas"][0], d["replicas"][1], d["replicas"][3]}
	}
	return d
}

var c15Core = map[string]bool{"replicas": true, "podManagementPolicy": true, "updateStrategy": true, "annotations": true}

var c15Order = []string{"spec", "replicas", "revisionHistoryLimit", "selector", "template", "podManagementPolicy", "updateStrategy", "volumeClaimTemplates", "annotations", "status"}

// c15Manifests enumerates the product of all dimensions.
func c15Manifests(dims map[string][]dimVal, maxOther int, f func(label string, obj J)) {
	idx := make([]int, len(c15Order))
	for {
		others := 0
		for i, name := range c15Order {
			if !c15Core[name] && name != "spec" && idx[i] != 0 {
				others++
			}
		}
		if others > maxOther {
			goto next
		}
		{
			spec := J{"serviceName": "web-svc"}
			obj := J{"apiVersion": "apps.pingcap.com/v1", "kind": "StatefulSet", "metadata": J{"name": "web", "namespace": world.NS, "uid": "uid-web", "generation": 1, "resourceVersion": "1"}}
			var labels []string
			hasSpec := true
			for i, name := range c15Order {
				v := dims[name][idx[i]]
				labels = append(labels, name+"="+v.Label)
				switch name {
				case "spec":
					hasSpec = v.Val != nil
				case "annotations":
					if v.Val != nil {
						obj["metadata"].(J)["annotations"] = v.Val
					}
				case "status":
					if v.Val != nil {
						obj["status"] = v.Val
					}
				default:
					if v.Val != nil {
						spec[name] = v.Val
					}
				}
			}
			if hasSpec {
				obj["spec"] = spec
				f(strings.Join(labels, " "), obj)
			} else if idx[1] == 0 && idx[2] == 0 && idx[3] == 0 && idx[4] == 0 && idx[5] == 0 && idx[6] == 0 && idx[7] == 0 {
				// without a spec the spec dimensions are moot: emit once per annotations/status value
				f(strings.Join(labels, " "), obj)
			}
		}
	next:
		i := len(idx) - 1
		for ; i >= 0; i-- {
			idx[i]++
			if idx[i] < len(dims[c15Order[i]]) {
				break
			}
			idx[i] = 0
		}
		if i < 0 {
			return
		}
	}
}

type c15Case struct {
	Label     string
	Set       *asv1.StatefulSet
	Defaulted bool
}

// c15Journey drives the set through creation, readiness, a template change,
// scale-in and a failed pod, checking every reconcile for panics.
func c15Journey(rep *explore.Report, w *world.World, c c15Case) {
	defer func() {
		if r := recover(); r != nil {
			if he, ok := r.(world.HarnessError); ok {
				fmt.Fprintf(os.Stderr, "HARNESS ERROR in %s: %s\n", c.Label, he.Msg)
				os.Exit(2)
			}
			panic(r)
		}
	}()
	st := world.NewState()
	st.API.Sets["web"] = c.Set
	st.SyncCaches()
	w.Lag = 0
	w.Load(st)
	var trace []string
	panicked := false
	reconciles := int64(0)
	step := func(phase string) bool {
		before := w.S.Clone()
		rec := w.Reconcile(world.NS+"/web", nil)
		reconciles++
		trace = append(trace, phase+": "+explore.OutcomeSig(rec))
		if rec.Panic != nil {
			panicked = true
			msg := fmt.Sprintf("%s defaulted=%v, phase %q: reconcile panicked: %v", c.Label, c.Defaulted, phase, rec.Panic)
			rep.Violation("C15", "panic@"+explore.PanicSite(rec.Stack), msg, func() interface{} {
				return explore.SnapshotReplay{Kind: "snapshot", Label: c.Label + " / " + phase, Key: world.NS + "/web", State: before, Calls: explore.CallStrings(rec), Panic: fmt.Sprint(rec.Panic), Stack: rec.Stack}
			})
			return false
		}
		return len(rec.Writes()) > 0
	}
	kubelet := func() {
		for _, name := range world.SortedKeys(w.S.API.Pods) {
			p := w.S.API.Pods[name]
			if p.DeletionTimestamp != nil {
				w.S.DelPod(name, 0)
				continue
			}
			if p.Status.Phase == v1.PodPending {
				n := p.DeepCopy()
				n.Status.Phase = v1.PodRunning
				n.Status.Conditions = []v1.PodCondition{{Type: v1.PodReady, Status: v1.ConditionTrue}}
				w.S.PutPod(n, 0)
			}
		}
	}
	settle := func(phase string) {
		for i := 0; i < 12 && !panicked; i++ {
			if !step(phase) {
				// one more reconcile on the quiet state exercises the full walk
				return
			}
			kubelet()
		}
	}
	edit := func(f func(s *asv1.StatefulSet)) {
		s := w.S.API.Sets["web"].DeepCopy()
		f(s)
		s.Generation++
		w.S.PutSet(s, 0)
	}
	settle("create")
	if !panicked {
		step("steady")
	}
	if !panicked {
		edit(func(s *asv1.StatefulSet) {
			if len(s.Spec.Template.Spec.Containers) > 0 {
				s.Spec.Template.Spec.Containers[0].Image = "img:T2"
			} else {
				s.Spec.Template.Spec.Containers = []v1.Container{{Name: "c", Image: "img:T2"}}
			}
		})
		settle("rollout")
	}
	if !panicked {
		// a pod fails, another is deleted by hand
		for i, name := range world.SortedKeys(w.S.API.Pods) {
			if i == 0 {
				n := w.S.API.Pods[name].DeepCopy()
				n.Status.Phase = v1.PodFailed
				n.Status.Conditions = nil
				w.S.PutPod(n, 0)
			}
		}
		settle("failed-pod")
	}
	if !panicked {
		edit(func(s *asv1.StatefulSet) {
			if s.Spec.Replicas != nil && *s.Spec.Replicas > 0 {
				r := *s.Spec.Replicas - 1
				s.Spec.Replicas = &r
			}
			if s.Annotations == nil {
				s.Annotations = map[string]string{}
			}
			s.Annotations["delete-slots"] = "[0]"
		})
		settle("scale-in-at-0")
	}
	if !panicked {
		edit(func(s *asv1.StatefulSet) { t := metav1.Now(); s.DeletionTimestamp = &t })
		step("deleting")
	}
	rep.AddStates(reconciles, reconciles)
	rep.Count(st.Key(), true, fmt.Sprintf("journey of %d reconciles, panicked=%v", reconciles, panicked))
	if rep.WantSample() {
		rep.Sample(map[string]interface{}{"object": c.Label, "defaulted": c.Defaulted, "journey": trace})
	}
}

// c15Snapshots reconciles the object against small hand-made populations.
func c15Snapshots(rep *explore.Report, w *world.World, c c15Case) {
	set := c.Set
	labels := map[string]string{"app": "web"}
	mk := func(ord int, phase v1.PodPhase, ready bool, rev string) *v1.Pod {
		cell := gen.Cell{Present: true, Phase: phase, Ready: ready}
		p := gen.BuildPod(set, ord, cell, rev, 1, nil)
		for k, v := range labels {
			p.Labels[k] = v
		}
		return p
	}
	bare := func(p *v1.Pod) *v1.Pod { p.Labels = nil; return p }
	pops := [][]*v1.Pod{
		{mk(0, v1.PodRunning, true, "web-old"), mk(1, v1.PodRunning, true, "web-old"), mk(2, v1.PodRunning, true, "web-old")},
		{mk(0, v1.PodRunning, true, "web-old"), mk(1, v1.PodRunning, false, "web-old"), mk(3, v1.PodRunning, true, "web-old")},
		{mk(1, v1.PodFailed, false, "web-old"), mk(2, v1.PodRunning, true, "web-old"), mk(5, v1.PodPending, false, "")},
		// pods without any label (a selector that is empty or made of NotIn/DoesNotExist expressions matches them)
		{bare(mk(0, v1.PodRunning, true, "")), bare(mk(1, v1.PodPending, false, ""))},
		{mk(0, v1.PodRunning, true, "web-old"), bare(mk(1, v1.PodRunning, true, ""))},
		// ordinals at the edge of the int32 range (valid pod names, parsed like any other)
		{mk(0, v1.PodRunning, true, "web-old"), mk(math.MaxInt32, v1.PodPending, false, "web-old")},
		{mk(math.MaxInt32, v1.PodRunning, true, "web-old"), mk(math.MaxInt32-1, v1.PodFailed, false, "web-old")},
		{mk(0, v1.PodPending, false, "web-old"), mk(math.MaxInt32, v1.PodRunning, false, "")},
	}
	// revisions in the history whose data was not written by this controller (ControllerRevision data is free-form for
	// the API server): named by status.currentRevision, by a pod label, or merely listed
	oddData := []string{`not json`, `{"spec":{"template":"a string"}}`, `{"spec":{"updateStrategy":{"rollingUpdate":{"partition":null}}}}`,
		`{"spec":{"updateStrategy":{"type":"RollingUpdate","rollingUpdate":null}}}`, `{"spec":{"selector":null,"replicas":null,"revisionHistoryLimit":null}}`,
		`{"spec":null}`, `null`, `{}`, `{"spec":{"template":{"$patch":"replace"}}}`, `{"spec":{"volumeClaimTemplates":[{"metadata":{"name":"data"}},{"metadata":{"name":"data"}}]}}`}
	type revPop struct {
		pods []*v1.Pod
		data string
		cur  bool
	}
	var rpops []revPop
	for _, d := range oddData {
		for _, cur := range []bool{true, false} {
			rpops = append(rpops, revPop{[]*v1.Pod{mk(0, v1.PodRunning, true, "web-odd"), mk(2, v1.PodFailed, false, "web-odd")}, d, cur})
		}
	}
	for i, rp := range rpops {
		st := world.NewState()
		x := set.DeepCopy()
		if rp.cur {
			x.Status.CurrentRevision = "web-odd"
		}
		st.API.Sets["web"] = x
		for _, p := range rp.pods {
			st.API.Pods[p.Name] = p
		}
		t := true
		lbl := map[string]string{"app": "web"}
		st.API.Revs["web-odd"] = &appsv1.ControllerRevision{ObjectMeta: metav1.ObjectMeta{Name: "web-odd", Namespace: world.NS, UID: "uid-rev-odd", ResourceVersion: "1", Labels: lbl,
			OwnerReferences: []metav1.OwnerReference{{APIVersion: "apps.pingcap.com/v1", Kind: "StatefulSet", Name: "web", UID: x.UID, Controller: &t, BlockOwnerDeletion: &t}}},
			Data: runtime.RawExtension{Raw: []byte(rp.data)}, Revision: 1}
		st.SyncCaches()
		w.Load(st)
		rec := w.Reconcile(world.NS+"/web", nil)
		rep.AddStates(1, 1)
		rep.Count(st.Key(), true, "snapshot with odd revision data: "+explore.OutcomeSig(rec))
		if rec.Panic != nil {
			msg := fmt.Sprintf("%s defaulted=%v, revision population %d (revision data %q, named by status.currentRevision=%v): reconcile panicked: %v", c.Label, c.Defaulted, i, rp.data, rp.cur, rec.Panic)
			rep.Violation("C15", "panic@"+explore.PanicSite(rec.Stack), msg, func() interface{} {
				return explore.SnapshotReplay{Kind: "snapshot", Label: c.Label, Key: world.NS + "/web", State: st, Calls: explore.CallStrings(rec), Panic: fmt.Sprint(rec.Panic), Stack: rec.Stack}
			})
		}
	}
	for i, pop := range pops {
		st := world.NewState()
		st.API.Sets["web"] = set
		for _, p := range pop {
			st.API.Pods[p.Name] = p
		}
		st.SyncCaches()
		w.Load(st)
		rec := w.Reconcile(world.NS+"/web", nil)
		rep.AddStates(1, 1)
		rep.Count(st.Key(), true, "snapshot: "+explore.OutcomeSig(rec))
		if rec.Panic != nil {
			msg := fmt.Sprintf("%s defaulted=%v, population %d: reconcile panicked: %v", c.Label, c.Defaulted, i, rec.Panic)
			rep.Violation("C15", "panic@"+explore.PanicSite(rec.Stack), msg, func() interface{} {
				return explore.SnapshotReplay{Kind: "snapshot", Label: c.Label, Key: world.NS + "/web", State: st, Calls: explore.CallStrings(rec), Panic: fmt.Sprint(rec.Panic), Stack: rec.Stack}
			})
		}
	}
}

func init() {
	oracle.Monitors["C15"] = oracle.C15
	register("c15", "no CRD-admitted object panics a reconcile", func([]string) int {
		thorough := explore.Tier() == "thorough"
		rep := explore.NewReport("C15", "model_checking")
		schema, ver, err := gen.LoadCRDSchema("/repo/manifests/crd.v1.yaml")
		if err != nil {
			fmt.Fprintln(os.Stderr, "cannot load the CRD schema:", err)
			return 2
		}
		dims := c15Dims(thorough)
		var sizes []string
		for _, n := range c15Order {
			sizes = append(sizes, fmt.Sprintf("%s:%d", n, len(dims[n])))
		}
		rep.Rule = "manifest dimensions (" + strings.Join(sizes, " x ") + "): full product of the core dimensions replicas x podManagementPolicy x updateStrategy x annotations, times every choice of at most 1 (thorough: 2) of the remaining dimensions away from its first value, plus spec-less objects; each admitted (pruned, defaulted, validated) by a mini structural-schema interpreter reading /repo/manifests/crd.v1.yaml version " + ver +
			", decoded into the typed object, with and without client-side SetObjectDefaults; each object is driven through a journey of real reconciles (create, steady, template change, failed pod, scale-in at slot 0, deletion; kubelet steps in between) and reconciled against 8 hand-made pod populations (two with pods that carry no label at all) (three with pods at ordinals 2^31-1 and 2^31-2) and 20 populations holding a revision whose data this controller did not write (not JSON, template of the wrong type, null partition / selector / spec, ...), named by status.currentRevision or only by pod labels; every reconcile must return without panicking; the same oracle runs over the ownership grid of C10/C13 (own / orphan / foreign pods and revisions, deleting and stale sets). Replica counts at the top of the int32 range (2^31-1, with and without delete slots below) are reconciled once each in a child process under an address-space limit, because the controller sizes a slice by the replica count. distinct = distinct start states."
		rep.Assumptions = []string{"the mini interpreter (type, required, properties, items, minimum, default, x-kubernetes-preserve-unknown-fields) stands in for the apiextensions validator, which cannot be built offline", "only type-correct values are generated for fields the typed client decodes", "replicas / slots near MaxInt32 are excluded (the reconciler allocates a slice of that length)"}
		deadline := explore.Deadline(100*time.Second, 15*time.Minute)
		ch := make(chan c15Case, 64)
		var wg sync.WaitGroup
		for i := 0; i < explore.Workers(); i++ {
			wg.Add(1)
			go func() {
				defer wg.Done()
				w := world.New()
				for c := range ch {
					c15Journey(rep, w, c)
					c15Snapshots(rep, w, c)
				}
			}()
		}
		admitted, rejected, undecodable := 0, 0, 0
		stop := false
		maxOther := 1
		if thorough {
			maxOther = 2
		}
		rep.Extra["non_core_dimensions_deviating_at_once"] = maxOther
		c15Manifests(dims, maxOther, func(label string, obj J) {
			if stop {
				return
			}
			if time.Now().After(deadline) {
				stop = true
				rep.Exhaustive = false
				rep.Cap = fmt.Sprintf("deadline after %d admitted objects", admitted)
				return
			}
			stored, err := schema.Admit(obj)
			if err != nil {
				rejected++
				return
			}
			raw, _ := json.Marshal(stored)
			for _, def := range []bool{false, true} {
				set := &asv1.StatefulSet{}
				if err := json.Unmarshal(raw, set); err != nil {
					undecodable++
					continue
				}
				if def {
					asv1.SetObjectDefaults_StatefulSet(set)
				}
				admitted++
				ch <- c15Case{Label: label, Set: set, Defaulted: def}
			}
		})
		close(ch)
		wg.Wait()
		// "any population of pods and revisions": the ownership grid of C10/C13 (own / orphan / foreign revisions and
		// pods, stale and deleting sets) with the no-panic oracle
		{
			och := make(chan ownCase, 256)
			var owg sync.WaitGroup
			var n int64
			for i := 0; i < explore.Workers(); i++ {
				owg.Add(1)
				go func() {
					defer owg.Done()
					w := world.New()
					for c := range och {
						runOwnCase(rep, w, c, monitorOf("C15"), false)
					}
				}()
			}
			apis, pols := []string{"same", "cache-deleting"}, []string{"Parallel"}
			if thorough {
				apis, pols = []string{"same", "cache-deleting", "api-deleting", "other-uid"}, []string{"Parallel", "OrderedReady"}
			}
			ownGrid(apis, pols, false, 1, thorough, func(c ownCase) bool {
				if time.Now().After(deadline) {
					rep.Exhaustive, rep.Cap = false, "deadline in the ownership grid"
					return false
				}
				n++
				och <- c
				return true
			})
			close(och)
			owg.Wait()
			rep.AddStates(n, n)
			rep.Extra["ownership_grid_cases"] = n
		}
		c15Huge(rep)
		rep.Extra["objects_admitted"] = admitted
		rep.Extra["manifests_rejected_by_schema"] = rejected
		rep.Extra["undecodable"] = undecodable
		rep.Validated = rep.States
		return rep.Finish()
	})
}
