package main

import (
	"context"
	"encoding/json"
	"fmt"
	"hash/fnv"
	"os"
	"reflect"
	"strconv"
	"strings"
	"sync"
	"time"

	"github.com/pingcap/advanced-statefulset/client/apis/apps/v1/helper"
	"github.com/pingcap/advanced-statefulset/pkg/controller/statefulset"
	appsv1 "k8s.io/api/apps/v1"
	v1 "k8s.io/api/core/v1"
	metav1 "k8s.io/apimachinery/pkg/apis/meta/v1"
	"k8s.io/apimachinery/pkg/runtime"
	"k8s.io/apimachinery/pkg/types"
	"k8s.io/apimachinery/pkg/util/rand"
	clientgoscheme "k8s.io/client-go/kubernetes/scheme"

	"verif/internal/explore"
	"verif/internal/gen"
	"verif/internal/oracle"
	"verif/internal/world"
)

// C18: migration keeps pods running.

var refCodec = clientgoscheme.Codecs.LegacyCodec(appsv1.SchemeGroupVersion)

// refPatch is the reference encoder: the revision data the built-in controller
// records for a StatefulSet (apps/v1 legacy codec, replace-patch of spec.template).
func refPatch(sts *appsv1.StatefulSet) []byte {
	str, err := runtime.Encode(refCodec, sts)
	if err != nil {
		panic(err)
	}
	var raw map[string]interface{}
	json.Unmarshal(str, &raw)
	spec := raw["spec"].(map[string]interface{})
	template := spec["template"].(map[string]interface{})
	template["$patch"] = "replace"
	out, _ := json.Marshal(map[string]interface{}{"spec": map[string]interface{}{"template": template}})
	return out
}

// refRevisionName is upstream's naming: <set>-<safe-encoded fnv32(data, collisionCount)>.
func refRevisionName(set string, data []byte, collision *int32) (string, string) {
	hf := fnv.New32()
	hf.Write(data)
	if collision != nil {
		hf.Write([]byte(strconv.FormatInt(int64(*collision), 10)))
	}
	h := rand.SafeEncodeString(fmt.Sprint(hf.Sum32()))
	return set + "-" + h, h
}

const builtinUID = "uid-builtin-web"

type c18Case struct {
	Policy    string
	Partition int32
	NRevs     int   // history length 1..3, templates T1..Tn, update = Tn
	Cur       int   // index of the current revision
	PodRevs   []int // revision index per ordinal
	Limit     int32
	SelExpr   bool  // the selector is written as an expression (app In (web, web2)): Upgrade strips the key, the label sync must restore it
	Rollback  bool  // the template was rolled back to T1: revision T1 renumbered past Tn and is the update revision
	Collision int32 // status.collisionCount of the built-in set (a name collision at some point of its history)
}

// upd is the index of the update revision.
func (c c18Case) upd() int {
	if c.Rollback {
		return 0
	}
	return c.NRevs - 1
}

func (c c18Case) String() string {
	return fmt.Sprintf("%s partition=%d history=T1..T%d current=T%d update=T%d pods at %v limit=%d collisionCount=%d selectorAsExpression=%v", c.Policy, c.Partition, c.NRevs, c.Cur+1, c.upd()+1, c.PodRevs, c.Limit, c.Collision, c.SelExpr)
}

func (c c18Case) builtin() (*appsv1.StatefulSet, []*appsv1.ControllerRevision) {
	sp := gen.Spec{Name: "web", Replicas: int32(len(c.PodRevs)), Policy: c.Policy, Strategy: gen.RU(c.Partition), Limit: c.Limit, Template: c.upd() + 1, SelExpr: c.SelExpr}
	sts := builtinFrom(sp.Build())
	sts.UID = builtinUID
	sts.ResourceVersion = "7"
	t := true
	var revs []*appsv1.ControllerRevision
	for i := 0; i < c.NRevs; i++ {
		x := sts.DeepCopy()
		x.Spec.Template = gen.PodTemplate(i+1, nil)
		data := refPatch(x)
		zero := int32(0) // upstream always hashes the collision count (initially 0) into the name
		name, hash := refRevisionName("web", data, &zero)
		revs = append(revs, &appsv1.ControllerRevision{
			ObjectMeta: metav1.ObjectMeta{Name: name, Namespace: world.NS, UID: types.UID("uid-rev-" + name), ResourceVersion: "3",
				Labels:            map[string]string{"app": "web", "controller.kubernetes.io/hash": hash},
				CreationTimestamp: metav1.NewTime(gen.T0.Add(time.Duration(i) * time.Second)),
				OwnerReferences:   []metav1.OwnerReference{{APIVersion: "apps/v1", Kind: "StatefulSet", Name: "web", UID: builtinUID, Controller: &t, BlockOwnerDeletion: &t}}},
			Data: runtime.RawExtension{Raw: data}, Revision: int64(i + 1)})
	}
	if c.Rollback {
		revs[0].Revision = int64(c.NRevs + 1)
	}
	sts.Status = appsv1.StatefulSetStatus{ObservedGeneration: 1, Replicas: int32(len(c.PodRevs)), ReadyReplicas: int32(len(c.PodRevs)),
		CurrentRevision: revs[c.Cur].Name, UpdateRevision: revs[c.upd()].Name}
	if c.Collision > 0 {
		cc := c.Collision
		sts.Status.CollisionCount = &cc
	}
	for _, pr := range c.PodRevs {
		if pr == c.Cur {
			sts.Status.CurrentReplicas++
		}
		if pr == c.upd() {
			sts.Status.UpdatedReplicas++
		}
	}
	return sts, revs
}

func (c c18Case) build(w *world.World) (*world.State, *appsv1.StatefulSet, []*appsv1.ControllerRevision, error) {
	sts, revs := c.builtin()
	adv, _ := helper.FromBuiltinStatefulSet(sts)
	st := world.NewState()
	st.API.BSets["web"] = sts
	t := true
	for _, r := range revs {
		st.API.Revs[r.Name] = r
	}
	for ord, pr := range c.PodRevs {
		p := gen.BuildPod(adv, ord, gen.ReadyAt(0), revs[pr].Name, pr+1, nil)
		p.OwnerReferences = []metav1.OwnerReference{{APIVersion: "apps/v1", Kind: "StatefulSet", Name: "web", UID: builtinUID, Controller: &t, BlockOwnerDeletion: &t}}
		st.API.Pods[p.Name] = p
	}
	st.SyncCaches()
	w.Lag = 0
	w.Load(st)
	run := c17Upgrade(w, sts, nil)
	if run.err != nil || run.panicV != nil {
		return nil, nil, nil, fmt.Errorf("upgrade failed: err=%v panic=%v", run.err, run.panicV)
	}
	return w.S.Clone(), sts, revs, nil
}

func c18Judge(sts *appsv1.StatefulSet, revs []*appsv1.ControllerRevision) explore.JudgeFn {
	upd := sts.Status.UpdateRevision
	part := int(*sts.Spec.UpdateStrategy.RollingUpdate.Partition)
	names := map[string]bool{}
	for _, r := range revs {
		names[r.Name] = true
	}
	return func(v *oracle.View) []oracle.Violation {
		var out []oracle.Violation
		bad := func(rule, f string, a ...interface{}) {
			out = append(out, oracle.Violation{Prop: "C18", Rule: rule, Msg: fmt.Sprintf(f, a...)})
		}
		for _, c := range v.Rec.Calls {
			if c.Verb == "create" && c.Resource == "controllerrevisions" && c.Applied {
				bad("new-revision-after-migration", "%s: a new revision was created although the built-in history records the template", c.ID)
			}
			if c.Verb == "delete" && c.Resource == "controllerrevisions" && names[c.Name] {
				t, _ := c.Target.(*appsv1.ControllerRevision)
				if t != nil {
					if ref := oracle.ControllerOf(t); ref == nil || ref.UID != v.Set.UID {
						bad("builtin-revision-deleted-before-adoption", "%s: revision of the built-in history deleted while not controlled by the Advanced set", c.ID)
					}
				}
			}
			if c.Verb == "delete" && c.Resource == "pods" {
				p := v.Rec.Before.Cache.Pods[c.Name]
				ord, ok := oracle.OrdinalOf("web", c.Name)
				justified := p != nil && ok && ord >= part && oracle.PodRev(p) != upd && !oracle.IsDead(p)
				if !justified {
					rev := "?"
					if p != nil {
						rev = oracle.PodRev(p)
					}
					bad("pod-deleted-after-migration", "%s: pod at revision %s deleted (update revision %s, partition %d): the built-in controller would not have", c.ID, rev, upd, part)
				}
			}
		}
		return out
	}
}

func c18Goal(sts *appsv1.StatefulSet, revs []*appsv1.ControllerRevision) func(st *world.State) string {
	return func(st *world.State) string {
		set := st.API.Sets["web"]
		if set == nil {
			return "Advanced set missing"
		}
		if set.Status.UpdateRevision != sts.Status.UpdateRevision {
			return fmt.Sprintf("status.updateRevision=%q, the built-in update revision is %q", set.Status.UpdateRevision, sts.Status.UpdateRevision)
		}
		for _, r := range revs {
			x := st.API.Revs[r.Name]
			if x == nil {
				continue // trimmed by the history limit once adopted
			}
			if ref := oracle.ControllerOf(x); ref == nil || ref.UID != set.UID {
				return "revision " + r.Name + " not adopted"
			}
			if x.Labels["app"] != "web" {
				return "revision " + r.Name + " not label-synced"
			}
			if string(x.Data.Raw) != string(r.Data.Raw) {
				return "revision " + r.Name + " data changed"
			}
		}
		for n := range st.API.Revs {
			found := false
			for _, r := range revs {
				found = found || r.Name == n
			}
			if !found {
				return "extra revision " + n
			}
		}
		return goalC02(st)
	}
}

func init() {
	register("c18", "migration keeps pods running: revision identity equals the built-in controller's", func([]string) int {
		thorough := explore.Tier() == "thorough"
		rep := explore.NewReport("C18", "model_checking")
		rep.Assumptions = append([]string{"k8s.io/kubernetes is not available offline: 'the data the built-in controller records' is a reference encoder using the same codec family (client-go scheme LegacyCodec(apps/v1)) and upstream's patch shape and naming (fnv32 of the data)",
			"the garbage collector is modelled as one orphaning step per dependent, in any order, interleaved with reconciles"}, apiAssumptions...)
		// part A: byte identity over the template generator
		muts := gen.Mutations(reflect.TypeOf(v1.PodTemplateSpec{}), map[bool]int{false: 6, true: 8}[thorough])
		var nA int64
		checkTemplate := func(label string, t v1.PodTemplateSpec) {
			sp := gen.Spec{Name: "web", Replicas: 1, Policy: "OrderedReady", Strategy: gen.RU(0), Limit: 10, Template: 1}
			sts := builtinFrom(sp.Build())
			sts.Spec.Template = t
			{ // an API object: one JSON round trip through its own type
				b, _ := json.Marshal(sts)
				c := &appsv1.StatefulSet{}
				if json.Unmarshal(b, c) != nil {
					return
				}
				sts = c
			}
			nA++
			adv, err := helper.FromBuiltinStatefulSet(sts)
			if err != nil {
				rep.Violation("C18", "conversion-error", label+": "+err.Error(), nil)
				return
			}
			want := refPatch(sts)
			ok, err := statefulset.Match(adv, &appsv1.ControllerRevision{Data: runtime.RawExtension{Raw: want}})
			if err != nil || !ok {
				rep.Violation("C18", "revision-data-differs", fmt.Sprintf("template %s: the Advanced controller's revision data is not byte-identical to the built-in encoding (err=%v); built-in: %s", label, err, want), func() interface{} {
					return map[string]interface{}{"kind": "c18-template", "mutation": label, "template": t, "builtin_encoding": string(want)}
				})
			}
			rep.Count(world.Key(sha16(label)), true, "")
		}
		for _, m := range muts {
			t := gen.PodTemplate(1, []string{"scratch"})
			m.Apply(reflect.ValueOf(&t).Elem())
			checkTemplate(m.Path+"="+m.Variant, t)
		}
		if thorough {
			var lvl []gen.Mutation
			for _, m := range muts {
				if strings.Count(m.Path, ".") <= 2 {
					lvl = append(lvl, m)
				}
			}
			for i := range lvl {
				for j := i + 1; j < len(lvl); j++ {
					if lvl[i].Path != lvl[j].Path {
						t := gen.PodTemplate(1, []string{"scratch"})
						lvl[i].Apply(reflect.ValueOf(&t).Elem())
						lvl[j].Apply(reflect.ValueOf(&t).Elem())
						checkTemplate(lvl[i].Path+"="+lvl[i].Variant+" & "+lvl[j].Path+"="+lvl[j].Variant, t)
					}
				}
			}
		}
		rep.AddStates(nA, nA)
		// part B: migrations at any point of a rollout, all interleavings of GC and reconciles
		var cases []c18Case
		maxPods, maxRevs, interruptions := 3, 3, 1
		if thorough {
			maxRevs, interruptions = 4, 2
		}
		for _, pol := range []string{"OrderedReady", "Parallel"} {
			for _, part := range []int32{0, 1} {
				for n := 1; n <= maxRevs; n++ {
					for cur := 0; cur < n; cur++ {
						for r := 1; r <= maxPods; r++ {
							for variant := 0; variant < 4; variant++ {
								rollback, coll := variant&1 != 0, int32(variant>>1)
								if rollback && n < 2 {
									continue
								}
								if variant != 0 && !thorough && (part != 0 || r != maxPods) {
									continue
								}
								upd := c18Case{NRevs: n, Rollback: rollback}.upd()
								// any mix of current/update revision over the ordinals
								for mask := 0; mask < 1<<r; mask++ {
									pr := make([]int, r)
									for i := range pr {
										pr[i] = cur
										if mask&(1<<i) != 0 {
											pr[i] = upd
										}
									}
									if cur == upd && mask != 0 {
										continue
									}
									for _, lim := range []int32{0, 10} {
										if lim == 0 && !thorough && (n < 3 || variant != 0) {
											continue
										}
										cases = append(cases, c18Case{Policy: pol, Partition: part, NRevs: n, Cur: cur, PodRevs: pr, Limit: lim, Rollback: rollback, Collision: coll})
										if variant == 0 && lim == 10 && (thorough || r == maxPods) {
											cases = append(cases, c18Case{Policy: pol, Partition: part, NRevs: n, Cur: cur, PodRevs: pr, Limit: lim, SelExpr: true})
										}
									}
								}
							}
						}
					}
				}
			}
		}
		deadline := explore.Deadline(90*time.Second, 15*time.Minute)
		var totalStates, totalRec int64
		done := 0
		var mu sync.Mutex
		ch := make(chan c18Case)
		var wg sync.WaitGroup
		for i := 0; i < explore.Workers(); i++ {
			wg.Add(1)
			go func() {
				defer wg.Done()
				w := world.New()
				for c := range ch {
					st, sts, revs, err := c.build(w)
					if err != nil {
						rep.Violation("C18", "upgrade-failed", c.String()+": "+err.Error(), nil)
						continue
					}
					sub := explore.NewReport("C18", "model_checking")
					cfg := explore.SearchCfg{Prop: "C18", D: interruptions, Judge: c18Judge(sts, revs), Goal: c18Goal(sts, revs), Deadline: deadline, Workers: 1, World: w,
						// the migration is interrupted: any single write of the adopting reconciles fails, conflicts, loses its
						// response or is followed by a crash
						FaultKinds: []string{world.FErr500, world.FConflict, world.FTimeout, world.FCrashAfter},
						FaultOn: func(c *world.Call) bool {
							return c.IsWrite() && (c.Resource == "controllerrevisions" || c.Resource == "pods")
						},
						Progress: func(s *world.State) []string { return append(world.EnvProgress(s), world.GCProgress(s, builtinUID)...) }}
					g := explore.Search(sub, cfg, []explore.Seed{{Label: "after Upgrade of: " + c.String(), State: st}})
					g.Analyse()
					g.CheckConvergence(sub)
					sub.MergeInto(rep)
					mu.Lock()
					totalStates += int64(len(g.Nodes))
					totalRec += g.Reconciles
					done++
					if !g.Complete {
						rep.Exhaustive = false
					}
					first := done <= 2
					mu.Unlock()
					if first {
						for k, n := range g.Nodes {
							if n.Bottom >= 0 {
								p := g.PathTo(k)
								rep.Sample(map[string]interface{}{"migration": c.String(), "one_interleaving_to_the_final_state": p.Transitions})
								break
							}
						}
					}
				}
			}()
		}
		for i, c := range cases {
			if time.Now().After(deadline) {
				rep.Exhaustive, rep.Cap = false, fmt.Sprintf("deadline after %d of %d migration cases", i, len(cases))
				break
			}
			ch <- c
		}
		close(ch)
		wg.Wait()
		// part C: the upgrade interleaved with the running controller
		var ilCases []c18Case
		for _, c := range cases {
			if c.Limit != 10 || (!thorough && (len(c.PodRevs) > 2 || c.NRevs > 2)) {
				continue
			}
			ilCases = append(ilCases, c)
		}
		c18InterleavedAll(rep, ilCases, explore.Deadline(80*time.Second, 15*time.Minute))
		rep.AddStates(totalStates, totalStates)
		rep.Extra["templates_checked_for_byte_identity"] = nA
		rep.Extra["migration_cases"] = done
		rep.Extra["migration_states"] = totalStates
		rep.Extra["migration_reconciles"] = totalRec
		rep.Rule = fmt.Sprintf("(A) byte identity: for every template of a reflective generator over PodTemplateSpec (%d single-path mutations; thorough: all pairs in the first two levels) the real Match(FromBuiltin(sts), reference data) must hold, the reference being the built-in encoding. (B) migrations: built-in sets with histories T1..Tn (n=1..%d), the update revision Tn or (after a rollback) T1 renumbered past Tn, status.collisionCount 0 or 1, selector written as labels or as an expression, any current revision, 1..%d pods at any mix of current/update revision, partition 0/1, both policies, history limit 0/10; the real Upgrade runs, then all interleavings of real reconciles, one garbage-collector orphaning step per pod and revision, and kubelet progress are explored (explicit-state, deduplicated), also after any %d interruptions of the adopting reconciles (InternalError, conflict, lost response or crash at any write on revisions or pods); oracle on every reconcile: no revision is created, no revision of the built-in history is deleted before adoption, a pod is deleted only if the built-in controller would (RollingUpdate, ordinal >= partition, revision != update revision); every bottom SCC is a quiescent state with all revisions adopted and label-synced, data unchanged, status.updateRevision = the built-in one, pods adopted and converged. (C) the real Upgrade interleaved with the running controller: the helper runs in its own goroutine and is stopped before each of its API calls; between two calls any number of real reconciles, garbage-collector and kubelet steps may run, a failed Upgrade is re-run once; all schedules are explored by stateless re-execution with state pruning; same oracle on every reconcile, and the goal state at the end.", len(muts), maxRevs, maxPods, interruptions)
		rep.Validated = totalRec + nA
		return rep.Finish()
	})
}

func sha16(s string) [16]byte {
	var k [16]byte
	h := fnv.New128a()
	h.Write([]byte(s))
	copy(k[:], h.Sum(nil))
	return k
}

var _ = context.TODO
var _ = os.Exit
