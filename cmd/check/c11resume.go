package main

import (
	"fmt"
	"time"

	"verif/internal/explore"
	"verif/internal/gen"
	"verif/internal/world"
)

// c11Resume checks the "pause is lossless" clause on the search graph: for
// every state s, every state t reached from pause(s) by progress transitions
// and u = unpause(t): the final states reachable from u are among those
// reachable from s, and there is at least one.
func c11Resume(rep *explore.Report, deadline time.Time) {
	grids := c02Grids()
	seeds := append(searchSeeds(grids), c09ExtraSeeds(false)...)
	pauseDev := func(st *world.State) []string {
		set := st.API.Sets["web"]
		if set == nil {
			return nil
		}
		if set.Annotations["paused-reconcile"] == "true" {
			return []string{"pause off"}
		}
		return []string{"pause on"}
	}
	cfg := explore.SearchCfg{Prop: "C11", D: 2, Deviations: pauseDev, Judge: monitorOf("C11"), KeepDevEdges: true,
		Goal: goalC02, Excuse: excuseC02, Deadline: deadline}
	g := explore.Search(rep, cfg, seeds)
	g.Analyse()
	var pairs, pausedStates int64
	for k, n := range g.Nodes {
		if n.Depth != 0 {
			continue
		}
		reachS := map[int32]bool{}
		for _, b := range n.Reach {
			reachS[b] = true
		}
		for _, d := range n.Dev {
			if d.Label != "pause on" {
				continue
			}
			// progress closure of the paused state
			seen := map[world.Key]bool{d.To: true}
			stack := []world.Key{d.To}
			for len(stack) > 0 {
				tk := stack[len(stack)-1]
				stack = stack[:len(stack)-1]
				t := g.Nodes[tk]
				if t == nil {
					continue
				}
				pausedStates++
				for _, s := range t.Succ {
					if !seen[s] {
						seen[s] = true
						stack = append(stack, s)
					}
				}
				for _, d2 := range t.Dev {
					if d2.Label != "pause off" {
						continue
					}
					u := g.Nodes[d2.To]
					if u == nil || u.Reach == nil && len(g.Bottoms) > 0 && u.Bottom < 0 && len(u.Succ) == 0 {
						continue
					}
					pairs++
					bad := ""
					if len(u.Reach) == 0 {
						bad = "after resuming no final state is reachable"
					}
					for _, b := range u.Reach {
						if !reachS[b] && g.Nodes[g.Bottoms[b]].Excuse == "" {
							bn := g.Nodes[g.Bottoms[b]]
							bad = fmt.Sprintf("after resuming the system can end in a final state that it could not reach had it never been paused (goal: %q)", bn.Goal)
							break
						}
					}
					if bad != "" {
						k, tk := k, tk
						rep.Violation("C11", "pause-not-lossless", bad, func() interface{} {
							p := g.PathTo(k)
							q := g.PathTo(tk)
							p.Note = fmt.Sprintf("pause here, then (paused) %v, then pause off", q.Transitions)
							p.Transitions = append(p.Transitions, "pause on")
							return p
						})
					}
				}
			}
		}
	}
	for k := range g.Nodes {
		rep.Count(k, true, "")
	}
	rep.Extra["resume_seeds"] = len(seeds)
	rep.Extra["resume_states"] = len(g.Nodes)
	rep.Extra["resume_reconciles"] = g.Reconciles
	rep.Extra["resume_pause_resume_pairs_checked"] = pairs
	rep.Extra["resume_paused_states_visited"] = pausedStates
	rep.Extra["resume_bottom_sccs"] = len(g.Bottoms)
}

// c11ResumeWakeup: removing the pause annotation is a metadata-only edit; the
// controller must still wake up for it, otherwise the set stays frozen although
// sync() would resume it. Exercised on the real handlers and the real worker step.
func c11ResumeWakeup(rep *explore.Report) {
	w := world.New()
	for _, pol := range []string{"OrderedReady", "Parallel"} {
		sc := gen.Scenario{Spec: gen.Spec{Name: "web", Replicas: 2, Policy: pol, Strategy: gen.RU(0), Limit: 10, Template: 1, Paused: true}, Revs: []int{1}, Cur: 0,
			Cells: []gen.Cell{gen.ReadyAt(0), gen.Absent, gen.Absent}}
		st := sc.Build(w)
		w.Lag = 0
		w.Load(st)
		if len(w.SetHandlers) != 1 {
			rep.Violation("C11", "handler-registration", "no set event handler registered", nil)
			return
		}
		q := &recQueue{}
		w.Ctrl.VerifSetQueue(q)
		paused := w.S.API.Sets["web"]
		// while paused: a worker step does nothing
		q.items = []interface{}{world.NS + "/web"}
		w.FillCaches()
		w.Begin(nil)
		w.Ctrl.VerifProcessNextWorkItem()
		if calls := w.End(); len(calls) > 0 {
			rep.Violation("C11", "write-while-paused", fmt.Sprintf("%s: worker step on a paused set issued %d API calls", pol, len(calls)), nil)
		}
		// the user removes the annotation (nothing else changes)
		if err := world.Apply(w.S, "pause off", 0); err != nil {
			panic(world.HarnessError{Msg: err.Error()})
		}
		resumed := w.S.API.Sets["web"]
		q.log, q.items = nil, nil
		w.FillCaches()
		w.SetHandlers[0].OnUpdate(paused, resumed)
		rep.AddStates(1, 1)
		if !keysOf(q.log)[world.NS+"/web"] {
			rep.Violation("C11", "resume-not-noticed", fmt.Sprintf("%s: the update that removes the pause annotation does not enqueue the set: it stays frozen until some unrelated event arrives", pol), func() interface{} {
				return map[string]interface{}{"kind": "c11-resume-wakeup", "policy": pol, "queue_log": q.log}
			})
			continue
		}
		w.Begin(nil)
		w.Ctrl.VerifProcessNextWorkItem()
		calls := w.End()
		created := false
		for _, c := range calls {
			if c.Verb == "create" && c.Resource == "pods" {
				created = true
			}
		}
		if !created {
			rep.Violation("C11", "resume-does-not-continue", fmt.Sprintf("%s: after the resume the worker step did not continue the pending scale-out", pol), nil)
		}
	}
}

// c11PauseDuringReconcile: the user pauses the set while a reconcile is in flight. The edit is what makes the
// reconcile's status write conflict; the controller then re-reads the set (which now says paused) to retry. From that
// read on it knows, and must not write for the set any more.
func c11PauseDuringReconcile(rep *explore.Report) {
	w := world.New()
	seeds := append(searchSeeds(c02Grids()[:1]), c09ExtraSeeds(false)...)
	// sets that have a status to write AND history to trim in the same reconcile: what follows the status write in the
	// reconcile must not happen either once the pause has been read
	for _, pol := range []string{"OrderedReady", "Parallel"} {
		for _, lim := range []int32{0, 1} {
			sc := gen.Scenario{Spec: gen.Spec{Name: "web", Replicas: 2, Policy: pol, Strategy: gen.RU(0), Limit: lim, Template: 3}, Revs: []int{1, 2, 3}, Cur: 2,
				Cells: []gen.Cell{gen.ReadyAt(2), gen.ReadyAt(2), gen.Absent}, StaleStatus: true}
			seeds = append(seeds, explore.Seed{Label: sc.String(), State: sc.Build(w)})
		}
	}
	key := world.NS + "/web"
	var n int64
	for _, sd := range seeds {
		w.Lag = 0
		w.Load(sd.State.Clone())
		base := w.Reconcile(key, nil)
		for _, c := range base.Calls {
			if !(c.Verb == "update" && c.Resource == "statefulsets") {
				continue
			}
			n++
			w.Load(sd.State.Clone())
			rec := w.Reconcile(key, world.FaultPlan{c.ID: world.FConflictPause})
			rep.AddStates(1, 1)
			rep.Count(sha16(sd.Label+c.ID), true, "pause lands during the reconcile: "+explore.OutcomeSig(rec))
			seen := false
			for _, x := range rec.Calls {
				if x.Fault == world.FConflictPause {
					seen = true
					continue
				}
				if seen && x.IsWrite() {
					rep.Violation("C11", "write-after-pause-was-read", fmt.Sprintf("%s: %s conflicted because the set was paused meanwhile; after re-reading the (now paused) set the reconcile still issued %s", sd.Label, c.ID, x.ID), func() interface{} {
						return explore.SnapshotReplay{Kind: "snapshot", Label: sd.Label, Key: key, State: sd.State, Faults: world.FaultPlan{c.ID: world.FConflictPause}, Calls: explore.CallStrings(rec)}
					})
					break
				}
			}
		}
	}
	rep.Extra["pause_during_reconcile_cases"] = n
}
