package main

import (
	"context"
	"fmt"
	"os"
	"strings"
	"sync"
	"time"

	asv1 "github.com/pingcap/advanced-statefulset/client/apis/apps/v1"
	"github.com/pingcap/advanced-statefulset/client/apis/apps/v1/helper"
	asclientset "github.com/pingcap/advanced-statefulset/client/client/clientset/versioned"
	asappsv1 "github.com/pingcap/advanced-statefulset/client/client/clientset/versioned/typed/apps/v1"
	appsv1 "k8s.io/api/apps/v1"
	metav1 "k8s.io/apimachinery/pkg/apis/meta/v1"
	"k8s.io/client-go/kubernetes"
	appsv1client "k8s.io/client-go/kubernetes/typed/apps/v1"

	"verif/internal/explore"
	"verif/internal/gen"
	"verif/internal/oracle"
	"verif/internal/world"
)

// The migration performed while the Advanced controller is running: the real
// helper.Upgrade runs in its own goroutine and is stopped before every API
// call it makes (a gate in thin client wrappers); between two of its calls the
// explorer may run real reconciles, garbage-collector steps and kubelet steps.
// Exactly one goroutine runs at any time (hand-off over channels), so every
// schedule is deterministic; schedules are explored by stateless re-execution
// with state-key pruning.

type gate struct {
	at    chan string   // upgrade -> explorer: "I am about to issue <call>"
	grant chan struct{} // explorer -> upgrade: go ahead with that one call
}

func (g *gate) wait(what string) {
	g.at <- what
	<-g.grant
}

type gatedKube struct {
	kubernetes.Interface
	g *gate
}

func (k gatedKube) AppsV1() appsv1client.AppsV1Interface {
	return gatedAppsV1{k.Interface.AppsV1(), k.g}
}

type gatedAppsV1 struct {
	appsv1client.AppsV1Interface
	g *gate
}

func (a gatedAppsV1) ControllerRevisions(ns string) appsv1client.ControllerRevisionInterface {
	return gatedRevs{a.AppsV1Interface.ControllerRevisions(ns), a.g}
}
func (a gatedAppsV1) StatefulSets(ns string) appsv1client.StatefulSetInterface {
	return gatedBSets{a.AppsV1Interface.StatefulSets(ns), a.g}
}

type gatedRevs struct {
	appsv1client.ControllerRevisionInterface
	g *gate
}

func (r gatedRevs) List(ctx context.Context, o metav1.ListOptions) (*appsv1.ControllerRevisionList, error) {
	r.g.wait("list controllerrevisions")
	return r.ControllerRevisionInterface.List(ctx, o)
}
func (r gatedRevs) Update(ctx context.Context, x *appsv1.ControllerRevision, o metav1.UpdateOptions) (*appsv1.ControllerRevision, error) {
	r.g.wait("update controllerrevisions " + x.Name)
	return r.ControllerRevisionInterface.Update(ctx, x, o)
}

type gatedBSets struct {
	appsv1client.StatefulSetInterface
	g *gate
}

func (s gatedBSets) Delete(ctx context.Context, name string, o metav1.DeleteOptions) error {
	s.g.wait("delete built-in statefulset " + name)
	return s.StatefulSetInterface.Delete(ctx, name, o)
}

type gatedPC struct {
	asclientset.Interface
	g *gate
}

func (p gatedPC) AppsV1() asappsv1.AppsV1Interface { return gatedASAppsV1{p.Interface.AppsV1(), p.g} }

type gatedASAppsV1 struct {
	asappsv1.AppsV1Interface
	g *gate
}

func (a gatedASAppsV1) StatefulSets(ns string) asappsv1.StatefulSetInterface {
	return gatedASets{a.AppsV1Interface.StatefulSets(ns), a.g}
}

type gatedASets struct {
	asappsv1.StatefulSetInterface
	g *gate
}

func (s gatedASets) Get(ctx context.Context, name string, o metav1.GetOptions) (*asv1.StatefulSet, error) {
	s.g.wait("get statefulset " + name)
	return s.StatefulSetInterface.Get(ctx, name, o)
}
func (s gatedASets) Create(ctx context.Context, x *asv1.StatefulSet, o metav1.CreateOptions) (*asv1.StatefulSet, error) {
	s.g.wait("create statefulset " + x.Name)
	return s.StatefulSetInterface.Create(ctx, x, o)
}
func (s gatedASets) Update(ctx context.Context, x *asv1.StatefulSet, o metav1.UpdateOptions) (*asv1.StatefulSet, error) {
	s.g.wait("update statefulset " + x.Name)
	return s.StatefulSetInterface.Update(ctx, x, o)
}
func (s gatedASets) UpdateStatus(ctx context.Context, x *asv1.StatefulSet, o metav1.UpdateOptions) (*asv1.StatefulSet, error) {
	s.g.wait("update statefulset/status " + x.Name)
	return s.StatefulSetInterface.UpdateStatus(ctx, x, o)
}

// one execution of a schedule ------------------------------------------------

type ilExec struct {
	w        *world.World
	sts      *appsv1.StatefulSet
	g        *gate
	done     chan error
	pending  string // the call the upgrade is about to issue ("" if not running)
	runs     int    // how many times the upgrade was started
	finished bool   // the last run returned
	lastErr  error
	calls    int // gated calls granted in the current run
}

func (x *ilExec) start() {
	x.g = &gate{at: make(chan string), grant: make(chan struct{})}
	x.done = make(chan error, 1)
	x.runs++
	x.finished, x.calls = false, 0
	go func() {
		defer func() {
			if r := recover(); r != nil {
				x.done <- fmt.Errorf("upgrade panicked: %v", r)
			}
		}()
		_, err := helper.Upgrade(context.TODO(), gatedKube{x.w.Kube, x.g}, gatedPC{x.w.PC, x.g}, x.sts.DeepCopy())
		x.done <- err
	}()
	x.await()
}

// await blocks until the upgrade goroutine is parked at its next call or has returned.
func (x *ilExec) await() {
	select {
	case what := <-x.g.at:
		x.pending = what
	case err := <-x.done:
		x.pending, x.finished, x.lastErr = "", true, err
	}
}

func (x *ilExec) stepUpgrade() {
	x.calls++
	x.g.grant <- struct{}{}
	x.await()
}

// drain lets a parked upgrade run to completion so that its goroutine ends.
func (x *ilExec) drain() {
	for x.pending != "" {
		x.stepUpgrade()
	}
}

func (x *ilExec) upgradeState() string {
	switch {
	case x.pending != "":
		return fmt.Sprintf("run%d@%d:%s", x.runs, x.calls, x.pending)
	case x.finished && x.lastErr == nil:
		return "done"
	case x.finished:
		return fmt.Sprintf("failed-run%d", x.runs)
	}
	return "idle"
}

// c18Interleaved explores all interleavings for one migration case.
func c18Interleaved(rep *explore.Report, w *world.World, c c18Case, maxRestarts int, deadline time.Time) (states, execs int64, complete bool) {
	complete = true
	// the pre-upgrade state
	sts, revs := c.builtin()
	seed := func() *world.State {
		st, _, _, err := c.buildBefore()
		if err != nil {
			panic(world.HarnessError{Msg: err.Error()})
		}
		return st
	}
	judge := c18Judge(sts, revs)
	goal := c18Goal(sts, revs)
	seen := map[string]bool{}
	type frame struct{ path []string }
	stack := []frame{{nil}}
	for len(stack) > 0 {
		if time.Now().After(deadline) {
			complete = false
			break
		}
		f := stack[len(stack)-1]
		stack = stack[:len(stack)-1]
		// execute the path from scratch
		w.Lag = 0
		w.Load(seed())
		w.Begin(nil)
		x := &ilExec{w: w, sts: sts}
		x.start()
		execs++
		var trace []string
		bad := func(rule, msg string) {
			tr := append([]string{}, trace...)
			rep.Violation("C18", rule, c.String()+" (Upgrade interleaved with the running controller): "+msg, func() interface{} {
				return map[string]interface{}{"kind": "c18-interleaving", "case": c.String(), "schedule": tr}
			})
		}
		apply := func(a string) {
			trace = append(trace, a+"   [upgrade: "+x.upgradeState()+"]")
			switch {
			case a == "U":
				x.stepUpgrade()
			case a == "restart":
				x.start()
			case a == "R":
				w.End()
				rec := w.Reconcile(world.NS+"/web", nil)
				w.Begin(nil)
				for _, v := range judge(oracle.NewView(rec)) {
					bad(v.Rule, v.Msg)
				}
				if rec.Panic != nil {
					bad("panic", fmt.Sprint(rec.Panic))
				}
			default:
				if err := world.Apply(w.S, a, 0); err != nil {
					panic(world.HarnessError{Msg: "interleaving step " + a + ": " + err.Error()})
				}
				w.FillCaches()
			}
		}
		for _, a := range f.path {
			apply(a)
		}
		key := w.S.Describe() + "\n" + x.upgradeState()
		if !seen[key] {
			seen[key] = true
			states++
			// enabled actions
			var acts []string
			if x.pending != "" {
				acts = append(acts, "U")
			} else if x.finished && x.lastErr != nil && x.runs <= maxRestarts {
				acts = append(acts, "restart")
			}
			if w.S.Cache.Sets["web"] != nil {
				acts = append(acts, "R")
			}
			acts = append(acts, world.EnvProgress(w.S)...)
			if w.S.API.BSets["web"] == nil {
				acts = append(acts, world.GCProgress(w.S, builtinUID)...)
			}
			// is this a final state? nothing but no-op reconciles left
			final := x.pending == "" && len(acts) <= 1
			if x.finished && x.lastErr != nil && x.runs > maxRestarts {
				final = false // abandoned upgrade: not judged
			}
			if final && x.finished && x.lastErr == nil {
				// a quiet reconcile must leave the goal state
				w.End()
				rec := w.Reconcile(world.NS+"/web", nil)
				w.Begin(nil)
				if len(rec.Writes()) == 0 {
					if why := goal(w.S); why != "" {
						bad("interleaved-migration-does-not-converge", "final state after the upgrade and all progress steps: "+why)
					}
				}
			}
			for _, a := range acts {
				stack = append(stack, frame{append(append([]string{}, f.path...), a)})
			}
		}
		x.drain()
		w.End()
	}
	return
}

// buildBefore returns the state before Upgrade runs.
func (c c18Case) buildBefore() (*world.State, *appsv1.StatefulSet, []*appsv1.ControllerRevision, error) {
	sts, revs := c.builtin()
	adv, _ := helper.FromBuiltinStatefulSet(sts)
	st := world.NewState()
	st.API.BSets["web"] = sts
	t := true
	for _, r := range revs {
		st.API.Revs[r.Name] = r
	}
	for ord, pr := range c.PodRevs {
		p := gen.BuildPod(adv, ord, gen.ReadyAt(0), revs[pr].Name, pr+1, nil)
		p.OwnerReferences = []metav1.OwnerReference{{APIVersion: "apps/v1", Kind: "StatefulSet", Name: "web", UID: builtinUID, Controller: &t, BlockOwnerDeletion: &t}}
		st.API.Pods[p.Name] = p
	}
	st.SyncCaches()
	return st, sts, revs, nil
}

func c18InterleavedAll(rep *explore.Report, cases []c18Case, deadline time.Time) {
	var mu sync.Mutex
	var totalStates, totalExecs int64
	done, incomplete := 0, 0
	ch := make(chan c18Case)
	var wg sync.WaitGroup
	for i := 0; i < explore.Workers(); i++ {
		wg.Add(1)
		go func() {
			defer wg.Done()
			defer func() {
				if r := recover(); r != nil {
					if he, ok := r.(world.HarnessError); ok {
						fmt.Fprintln(os.Stderr, "HARNESS ERROR (interleaved upgrade):", he.Msg)
						os.Exit(2)
					}
					panic(r)
				}
			}()
			w := world.New()
			for c := range ch {
				s, e, ok := c18Interleaved(rep, w, c, 1, deadline)
				mu.Lock()
				totalStates += s
				totalExecs += e
				done++
				if !ok {
					incomplete++
				}
				mu.Unlock()
			}
		}()
	}
	for _, c := range cases {
		if time.Now().After(deadline) {
			break
		}
		ch <- c
	}
	close(ch)
	wg.Wait()
	rep.AddStates(totalStates, totalExecs)
	rep.Extra["interleaved_upgrade"] = map[string]interface{}{"cases": done, "cases_cut_by_deadline": incomplete, "distinct_states": totalStates, "schedules_executed": totalExecs}
	if incomplete > 0 || done < len(cases) {
		rep.Exhaustive = false
		if rep.Cap == "" {
			rep.Cap = fmt.Sprintf("interleaved-upgrade exploration: %d of %d cases finished, %d cut by the deadline", done-incomplete, len(cases), incomplete)
		}
	}
}

var _ = strings.Join
