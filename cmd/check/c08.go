package main

import (
	"encoding/json"
	"fmt"
	"os"
	"reflect"
	"sync"
	"time"

	asv1 "github.com/pingcap/advanced-statefulset/client/apis/apps/v1"
	"github.com/pingcap/advanced-statefulset/pkg/controller/statefulset"
	appsv1 "k8s.io/api/apps/v1"
	v1 "k8s.io/api/core/v1"
	apiequality "k8s.io/apimachinery/pkg/api/equality"
	metav1 "k8s.io/apimachinery/pkg/apis/meta/v1"
	"k8s.io/apimachinery/pkg/runtime"

	"verif/internal/explore"
	"verif/internal/gen"
	"verif/internal/oracle"
	"verif/internal/world"
)

// C08: update revision mirrors the template.

// c08Judge is the per-reconcile oracle. collider names a pre-seeded revision
// whose data must never change ("" if none).
func c08Judge(collider string, colliderData string) explore.JudgeFn {
	return func(v *oracle.View) []oracle.Violation {
		var out []oracle.Violation
		rec := v.Rec
		if v.Set == nil {
			return nil
		}
		bad := func(rule, f string, a ...interface{}) {
			out = append(out, oracle.Violation{Prop: "C08", Rule: rule, Msg: fmt.Sprintf(f, a...)})
		}
		if b := rec.Before.API.Revs[collider]; collider != "" && b != nil && string(b.Data.Raw) == colliderData {
			if r := rec.After.API.Revs[collider]; r == nil {
				if ref := oracle.ControllerOf(b); ref == nil || ref.UID != v.Set.UID {
					bad("colliding-revision-removed", "pre-existing revision %s, which the set does not control, was deleted", collider)
				}
			} else if string(r.Data.Raw) != colliderData {
				bad("colliding-revision-overwritten", "pre-existing revision %s had its data overwritten", collider)
			}
		}
		// an unchanged template never adds a revision
		sig := oracle.TemplateSig(&v.Set.Spec.Template)
		var known *appsv1.ControllerRevision
		for _, n := range world.SortedKeys(v.Revs) {
			r := v.Revs[n]
			if ref := oracle.ControllerOf(r); ref != nil && ref.UID == v.Set.UID && oracle.RevTemplateSig(r) == sig {
				if known == nil || r.Revision > known.Revision {
					known = r
				}
			}
		}
		for _, c := range rec.Calls {
			if c.Verb == "create" && c.Resource == "controllerrevisions" && known != nil {
				bad("revision-added-for-known-template", "%s although revision %s already records the set's template", c.ID, known.Name)
			}
		}
		if rec.Err != nil || rec.Panic != nil || rec.Crash || v.Paused || !v.SelectorOK {
			return out
		}
		after := rec.After.API.Sets[v.Set.Name]
		if after == nil {
			return out
		}
		upd := rec.After.API.Revs[after.Status.UpdateRevision]
		if upd == nil {
			bad("update-revision-dangling", "after a successful reconcile status.updateRevision=%q names no stored revision", after.Status.UpdateRevision)
			return out
		}
		restored, err := statefulset.ApplyRevision(v.Set, upd)
		if err != nil {
			bad("update-revision-unusable", "ApplyRevision(%s) fails: %v", upd.Name, err)
			return out
		}
		if !apiequality.Semantic.DeepEqual(restored.Spec.Template, v.Set.Spec.Template) {
			bad("update-revision-does-not-mirror-template", "revision %s applied to the set gives a template different from the set's (set image %s)", upd.Name, sig)
		}
		if known != nil && upd.Name != known.Name {
			bad("known-template-not-reused", "template already recorded in %s but updateRevision is %s", known.Name, upd.Name)
		}
		for _, n := range world.SortedKeys(rec.After.API.Revs) {
			r := rec.After.API.Revs[n]
			if ref := oracle.ControllerOf(r); ref == nil || ref.UID != v.Set.UID || r.Name == upd.Name {
				continue
			}
			if r.Revision >= upd.Revision {
				bad("update-revision-not-newest", "updateRevision %s has number %d but %s has %d", upd.Name, upd.Revision, r.Name, r.Revision)
			}
		}
		// non-template edits never move the update revision
		if prev := v.Set.Status.UpdateRevision; prev != "" && prev != after.Status.UpdateRevision {
			if pr := v.Revs[prev]; pr != nil && oracle.RevTemplateSig(pr) == sig && oracle.ControllerOf(pr) != nil {
				bad("update-revision-moved-without-template-change", "updateRevision moved %s -> %s although %s records the current template", prev, after.Status.UpdateRevision, prev)
			}
		}
		if b := rec.Before.API.Revs[collider]; collider != "" && b != nil && string(b.Data.Raw) == colliderData && after.Status.UpdateRevision == collider {
			bad("colliding-revision-adopted-as-update", "updateRevision names the colliding revision %s whose data is different", collider)
		}
		return out
	}
}

func c08Deviations(st *world.State) []string {
	set := st.API.Sets["web"]
	if set == nil {
		return nil
	}
	var out []string
	cur := oracle.TemplateSig(&set.Spec.Template)
	for k := 1; k <= 3; k++ {
		if gen.Image(k) != cur {
			out = append(out, "template "+gen.Image(k))
		}
	}
	r := *set.Spec.Replicas
	if r < 1 {
		out = append(out, "replicas +1")
	}
	if r > 0 {
		out = append(out, "replicas -1")
	}
	slots := oracle.ParseSlots(set.Annotations)
	if slots[0] {
		out = append(out, "slot- 0")
	} else {
		out = append(out, "slot+ 0")
	}
	if set.Annotations["paused-reconcile"] == "true" {
		out = append(out, "pause off")
	} else {
		out = append(out, "pause on")
	}
	if set.Labels["team"] != "x" {
		out = append(out, "label x")
	}
	return out
}

func c08Seeds(w *world.World) ([]explore.Seed, string, string) {
	var seeds []explore.Seed
	base := gen.Spec{Name: "web", Replicas: 1, Policy: "OrderedReady", Strategy: gen.RU(0), Limit: 2, Template: 1}
	// brand new set, and sets with histories
	for _, h := range []history{{nil, 1, -1, ""}, {[]int{1}, 1, 0, ""}, {[]int{1, 2}, 2, 0, ""}, {[]int{1, 2, 3}, 3, 1, ""}, {[]int{2, 1}, 2, 1, ""}} {
		for _, lim := range []int32{0, 2} {
			sp := base
			sp.Template, sp.Limit = h.Tmpl, lim
			sc := gen.Scenario{Spec: sp, Revs: h.Revs, Cur: h.Cur, Cells: []gen.Cell{gen.Absent}}
			if len(h.Revs) > 0 {
				sc.Cells = []gen.Cell{gen.ReadyAt(h.Cur)}
			}
			seeds = append(seeds, explore.Seed{Label: sc.String(), State: sc.Build(w)})
		}
	}
	// a revision engineered to collide on name with the one the controller will create for T2
	t2 := gen.Revision(w, base, 2)
	collider := t2.DeepCopy()
	collider.Data.Raw = []byte(`{"spec":{"template":{"$patch":"replace","metadata":{"labels":{"app":"web"}},"spec":{"containers":[{"image":"img:T9","name":"c"}]}}}}`)
	for _, cc := range []int32{-1, 0, 1, 2} {
		for _, owned := range []bool{true, false} {
			sp := base
			sc := gen.Scenario{Spec: sp, Revs: []int{1}, Cur: 0, Cells: []gen.Cell{gen.ReadyAt(0)}}
			if cc >= 0 {
				c := cc
				sc.Collision = &c
			}
			st := sc.Build(w)
			cr := collider.DeepCopy()
			cr.Revision = 7
			if !owned {
				cr.OwnerReferences = nil
				cr.Labels = map[string]string{"unrelated": "x"}
			}
			st.API.Revs[cr.Name] = cr
			seeds = append(seeds, explore.Seed{Label: fmt.Sprintf("%s + colliding revision %s (collisionCount=%d, owned=%v)", sc, cr.Name, cc, owned), State: st})
		}
	}
	return seeds, collider.Name, string(collider.Data.Raw)
}

func init() {
	register("c08", "update revision mirrors the template; scaling edits never cause a restart", func([]string) int {
		thorough := explore.Tier() == "thorough"
		rep := explore.NewReport("C08", "model_checking")
		rep.Assumptions = apiAssumptions
		w := world.New()
		seeds, collider, cdata := c08Seeds(w)
		D := 5
		if thorough {
			D = 7
		}
		cfg := explore.SearchCfg{Prop: "C08", D: D, Deviations: c08Deviations, Judge: c08Judge(collider, cdata), Deadline: explore.Deadline(100*time.Second, 12*time.Minute),
			// a concurrent writer touches a revision between the list and the write (conflict with a stale or a
			// refreshed view), or the write fails / loses its response
			FaultKinds: []string{world.FConflict, world.FConflictFresh, world.FErr500, world.FTimeout},
			FaultOn: func(c *world.Call) bool {
				// also the status write: the update revision the reconcile worked out must reach the status even when that
				// write has to be retried
				return (c.Resource == "controllerrevisions" && c.IsWrite()) || (c.Resource == "statefulsets" && c.Sub == "status")
			}}
		g := explore.Search(rep, cfg, seeds)
		for k := range g.Nodes {
			rep.Count(k, true, "")
		}
		// part B: structural template generator, one set per template
		muts := gen.Mutations(reflect.TypeOf(v1.PodTemplateSpec{}), map[bool]int{false: 6, true: 8}[thorough])
		var top []gen.Mutation
		for _, m := range muts {
			top = append(top, m)
		}
		type job struct {
			label string
			tmpl  v1.PodTemplateSpec
		}
		ch := make(chan job, 64)
		var wg sync.WaitGroup
		var nTemplates int64
		var mu sync.Mutex
		for i := 0; i < explore.Workers(); i++ {
			wg.Add(1)
			go func() {
				defer wg.Done()
				ww := world.New()
				for j := range ch {
					c08Template(rep, ww, j.label, j.tmpl, false)
					// and with the template's revision already in the history as an earlier build of the controller
					// (or the built-in one) recorded it: the stored format must still be recognised
					c08Template(rep, ww, j.label, j.tmpl, true)
					mu.Lock()
					nTemplates++
					mu.Unlock()
				}
			}()
		}
		baseT := func() *v1.PodTemplateSpec {
			t := gen.PodTemplate(1, []string{"scratch"})
			t.Annotations = map[string]string{"a": "b"}
			return &t
		}
		deadline := explore.Deadline(40*time.Second, 8*time.Minute)
		for i, m := range muts {
			if time.Now().After(deadline) {
				rep.Exhaustive, rep.Cap = false, fmt.Sprintf("template generator stopped by deadline after %d of %d single mutations", i, len(muts))
				break
			}
			t := baseT()
			m.Apply(reflect.ValueOf(t).Elem())
			ch <- job{m.Path + "=" + m.Variant, *t}
		}
		// int64 fields beyond 2^53 (pod validation accepts them: no upper bound on the grace period, any toleration time)
		{
			big, neg := int64(9007199254740993), int64(-9007199254740993)
			t := baseT()
			t.Spec.TerminationGracePeriodSeconds = &big
			ch <- job{"int64 beyond 2^53: terminationGracePeriodSeconds=9007199254740993", *t}
			t = baseT()
			t.Spec.Tolerations = []v1.Toleration{{Key: "k", Operator: v1.TolerationOpExists, Effect: v1.TaintEffectNoExecute, TolerationSeconds: &neg}}
			ch <- job{"int64 beyond 2^53: tolerations[0].tolerationSeconds=-9007199254740993", *t}
			in := int64(9007199254740992) // exactly representable: must be fine
			t = baseT()
			t.Spec.TerminationGracePeriodSeconds = &in
			ch <- job{"int64 at 2^53: terminationGracePeriodSeconds=9007199254740992", *t}
		}
		if thorough {
			// pairs among the first two levels
			var lvl []gen.Mutation
			for _, m := range muts {
				depth := 0
				for _, ch := range m.Path {
					if ch == '.' {
						depth++
					}
				}
				if depth <= 2 {
					lvl = append(lvl, m)
				}
			}
		pairs:
			for i := range lvl {
				for j := i + 1; j < len(lvl); j++ {
					if time.Now().After(deadline) {
						rep.Exhaustive, rep.Cap = false, "template pair generator stopped by deadline"
						break pairs
					}
					if lvl[i].Path == lvl[j].Path {
						continue
					}
					t := baseT()
					lvl[i].Apply(reflect.ValueOf(t).Elem())
					lvl[j].Apply(reflect.ValueOf(t).Elem())
					ch <- job{lvl[i].Path + "=" + lvl[i].Variant + " & " + lvl[j].Path + "=" + lvl[j].Variant, *t}
				}
			}
		}
		close(ch)
		wg.Wait()
		_ = top
		rep.Extra["seeds"] = len(seeds)
		rep.Extra["edit_depth"] = D
		rep.Extra["reconciles"] = g.Reconciles
		rep.Extra["templates_from_structural_generator"] = nTemplates
		rep.Rule = fmt.Sprintf("(A) explicit-state search from %d seeds (new set, histories of 1-3 revisions incl. a rollback, and a pre-existing revision engineered to collide on name with the one the controller is about to create, collisionCount unset/0/1/2, owned or unrelated): every edit history of depth <=%d over {template -> T1|T2|T3, replicas +-1, slot 0 add/remove, pause on/off, label edit} interleaved with reconcile and kubelet progress, deduplicated by state; every write on a ControllerRevision and every status write may additionally hit a conflict (stale or refreshed view), an InternalError or a lost response (counted as one of the edits); oracle after every successful reconcile: updateRevision names a stored revision whose data applied to the set reproduces the template (real ApplyRevision + semantic equality), a template already recorded never adds a revision and its revision is re-used and numbered above all others, non-template edits never move updateRevision, the colliding revision is never overwritten or taken as update revision. (B) a reflective generator over PodTemplateSpec (every path set alone to each variant, plus int64 fields at and beyond 2^53; thorough: all pairs in the first two levels): one new set per template, two reconciles; the revision must mirror the template and the second reconcile must add nothing; and the same with the template's revision already stored as the reference encoder (the built-in controller's, i.e. any earlier build's) records it: no reconcile may add a revision.", len(seeds), D)
		rep.Validated = g.Reconciles + 2*nTemplates
		return rep.Finish()
	})
}

func c08Template(rep *explore.Report, w *world.World, label string, tmpl v1.PodTemplateSpec, recorded bool) {
	defer func() {
		if r := recover(); r != nil {
			if he, ok := r.(world.HarnessError); ok {
				fmt.Fprintf(os.Stderr, "HARNESS ERROR in template %s: %s\n", label, he.Msg)
				os.Exit(2)
			}
			panic(r)
		}
	}()
	// templates must be API objects: one JSON round trip through their own type
	sp := gen.Spec{Name: "web", Replicas: 0, Policy: "OrderedReady", Strategy: gen.RU(0), Limit: 10, Template: 1}
	set := sp.Build()
	set.Spec.Template = tmpl
	if set.Spec.Template.Labels == nil || set.Spec.Template.Labels["app"] != "web" {
		// the selector must keep matching (API validation requires it)
		if set.Spec.Template.Labels == nil {
			set.Spec.Template.Labels = map[string]string{}
		}
		set.Spec.Template.Labels["app"] = "web"
	}
	{
		b, _ := jsonMarshal(set)
		c := &asv1.StatefulSet{}
		if err := jsonUnmarshal(b, c); err != nil {
			return
		}
		set = c
	}
	st := world.NewState()
	st.API.Sets["web"] = set
	recordedName := ""
	if recorded {
		label += " (revision already recorded in the reference encoding)"
		data := refPatch(builtinFrom(set))
		zero := int32(0)
		name, hash := refRevisionName("web", data, &zero)
		lbl := map[string]string{"controller.kubernetes.io/hash": hash}
		for k, v := range set.Spec.Template.Labels {
			lbl[k] = v
		}
		t := true
		st.API.Revs[name] = &appsv1.ControllerRevision{ObjectMeta: metav1.ObjectMeta{Name: name, Namespace: world.NS, UID: "uid-rev-recorded", ResourceVersion: "1", Labels: lbl,
			OwnerReferences: []metav1.OwnerReference{{APIVersion: "apps.pingcap.com/v1", Kind: "StatefulSet", Name: "web", UID: set.UID, Controller: &t, BlockOwnerDeletion: &t}}},
			Data: runtime.RawExtension{Raw: data}, Revision: 1}
		set.Status.CurrentRevision, set.Status.UpdateRevision = name, name
		recordedName = name
	}
	st.SyncCaches()
	w.Lag = 0
	w.Load(st)
	judge := c08Judge("", "")
	for i := 0; i < 2; i++ {
		rec := w.Reconcile(world.NS+"/web", nil)
		rep.AddStates(1, 1)
		vs := judge(oracle.NewView(rec))
		if rec.Panic != nil {
			vs = append(vs, oracle.Violation{Prop: "C08", Rule: "panic", Msg: fmt.Sprint(rec.Panic)})
		}
		if rec.Err != nil {
			vs = append(vs, oracle.Violation{Prop: "C08", Rule: "reconcile-error", Msg: rec.Err.Error()})
		}
		if i == 1 || recorded {
			for _, c := range rec.Calls {
				if c.Verb == "create" && c.Resource == "controllerrevisions" {
					vs = append(vs, oracle.Violation{Prop: "C08", Rule: "revision-added-for-unchanged-template", Msg: fmt.Sprintf("reconcile %d of an unchanged template adds %s (history: %q)", i+1, c.ID, recordedName)})
				}
			}
		}
		for _, v := range vs {
			v := v
			before := rec.Before
			rep.Violation(v.Prop, v.Rule, "template "+label+": "+v.Msg, func() interface{} {
				return explore.SnapshotReplay{Kind: "snapshot", Label: "template " + label, Key: world.NS + "/web", State: before, Calls: explore.CallStrings(rec), Viols: []string{v.String()}}
			})
		}
	}
	rep.Count(st.Key(), true, "")
}

var _ = metav1.Now

func jsonMarshal(v interface{}) ([]byte, error)   { return json.Marshal(v) }
func jsonUnmarshal(b []byte, v interface{}) error { return json.Unmarshal(b, v) }
