// Command check runs the exhaustive checks, one sub-command per property.
package main

import (
	"fmt"

	"os"
	"sort"
	"strings"
	"verif/internal/explore"
	"verif/internal/oracle"
)

type cmd struct {
	run  func(args []string) int
	help string
}

var cmds = map[string]cmd{}

func register(name, help string, f func(args []string) int) { cmds[name] = cmd{f, help} }

func main() {
	oracle.PanicSite = explore.PanicSite
	if len(os.Args) < 2 {
		usage()
		os.Exit(2)
	}
	c, ok := cmds[strings.ToLower(os.Args[1])]
	if !ok {
		usage()
		os.Exit(2)
	}
	os.Exit(c.run(os.Args[2:]))
}

func usage() {
	var names []string
	for n := range cmds {
		names = append(names, n)
	}
	sort.Strings(names)
	fmt.Fprintln(os.Stderr, "usage: check <command> [args]; VERIF_TIER=quick|thorough VERIF_SEED=<int>")
	for _, n := range names {
		fmt.Fprintf(os.Stderr, "  %-8s %s\n", n, cmds[n].help)
	}
}
