package main

import (
	"fmt"
	"strings"

	asv1 "github.com/pingcap/advanced-statefulset/client/apis/apps/v1"
	v1 "k8s.io/api/core/v1"

	"verif/internal/explore"
	"verif/internal/gen"
	"verif/internal/oracle"
	"verif/internal/world"
)

// c12EventDriven: the census clause with the controller woken the way it is in production. Elsewhere "reconcile" is a
// transition that is always enabled; here a reconcile runs only when the set's key is in the work queue, and the key
// gets there only through the real event handlers, fed with the watch events in the order the caches receive them
// (each kind in order, kinds interleaved freely, arbitrarily late). Explored exhaustively (explicit states, deduplicated)
// from steady sets with up to two kubelet events (a pod turns unready / ready again). Whenever nothing is queued, nothing
// is undelivered and no pod is in transit, the stored status must be an exact census.
func c12EventDriven(rep *explore.Report) {
	const lag = 1000 // nothing is delivered unless the explorer says so
	w := world.New()
	q := &recQueue{}
	w.Ctrl.VerifSetQueue(q)
	key := world.NS + "/web"
	type node struct {
		st     *world.State
		queued bool
		env    int
		path   []string
	}
	var states, recs int64
	for _, pol := range []string{"Parallel", "OrderedReady"} {
		for r := int32(2); r <= 3; r++ {
			cells := []gen.Cell{gen.ReadyAt(0), gen.ReadyAt(0), gen.Absent}
			if r == 3 {
				cells[2] = gen.ReadyAt(0)
			}
			sc := gen.Scenario{Spec: gen.Spec{Name: "web", Replicas: r, Policy: pol, Strategy: gen.RU(0), Limit: 10, Template: 1}, Revs: []int{1}, Cur: 0, Cells: cells}
			seed := sc.Build(w)
			seen := map[string]bool{}
			stack := []node{{st: seed, queued: true}}
			for len(stack) > 0 {
				n := stack[len(stack)-1]
				stack = stack[:len(stack)-1]
				k := fmt.Sprintf("%x|%v|%d", n.st.Key(), n.queued, n.env)
				if seen[k] {
					continue
				}
				seen[k] = true
				states++
				inTransit := false
				for _, l := range world.EnvProgress(n.st) {
					if !strings.HasPrefix(l, "deliver") {
						inTransit = true
					}
				}
				if !n.queued && len(n.st.Pending) == 0 && !inTransit {
					if set := n.st.API.Sets["web"]; set != nil {
						rr, ready, cur, upd := oracle.Census(n.st, set)
						s := set.Status
						if s.Replicas != rr || s.ReadyReplicas != ready || s.CurrentReplicas != cur || s.UpdatedReplicas != upd {
							path := append([]string{}, n.path...)
							rep.Violation("C12", "census-when-idle", fmt.Sprintf("%s: nothing is queued, every event has been delivered and no pod is in transit, yet status replicas/ready/current/updated = %d/%d/%d/%d and the live pods give %d/%d/%d/%d", sc.String(), s.Replicas, s.ReadyReplicas, s.CurrentReplicas, s.UpdatedReplicas, rr, ready, cur, upd), func() interface{} {
								return map[string]interface{}{"kind": "c12-events", "seed": sc.String(), "steps": path}
							})
						}
					}
				}
				push := func(st *world.State, queued bool, env int, step string) {
					stack = append(stack, node{st: st, queued: queued, env: env, path: append(append([]string{}, n.path...), step)})
				}
				// the worker takes the key
				if n.queued {
					w.Lag = lag
					w.Load(n.st.Clone())
					rec := w.Reconcile(key, nil)
					recs++
					push(rec.After, rec.Err != nil, n.env, "reconcile")
				}
				// the informers receive the next event of a kind and call the handlers
				for _, kind := range []string{"pods", "sets"} {
					var ev *world.CacheEvent
					for i := range n.st.Pending {
						if n.st.Pending[i].Kind == kind {
							ev = &n.st.Pending[i]
							break
						}
					}
					if ev == nil {
						continue
					}
					st := n.st.Clone()
					var oldPod *v1.Pod
					var oldSet *asv1.StatefulSet
					if kind == "pods" {
						oldPod = st.Cache.Pods[ev.Name]
					} else {
						oldSet = st.Cache.Sets[ev.Name]
					}
					st.Deliver(kind)
					w.Lag = lag
					w.Load(st.Clone())
					q.log, q.items = nil, nil
					if kind == "pods" && len(w.PodHandlers) > 0 {
						newPod := st.Cache.Pods[ev.Name]
						switch {
						case oldPod == nil && newPod != nil:
							w.PodHandlers[0].OnAdd(newPod, false)
						case oldPod != nil && newPod != nil:
							w.PodHandlers[0].OnUpdate(oldPod, newPod)
						case oldPod != nil:
							w.PodHandlers[0].OnDelete(oldPod)
						}
					}
					if kind == "sets" && len(w.SetHandlers) > 0 {
						newSet := st.Cache.Sets[ev.Name]
						switch {
						case oldSet == nil && newSet != nil:
							w.SetHandlers[0].OnAdd(newSet, false)
						case oldSet != nil && newSet != nil:
							w.SetHandlers[0].OnUpdate(oldSet, newSet)
						case oldSet != nil:
							w.SetHandlers[0].OnDelete(oldSet)
						}
					}
					push(st, n.queued || keysOf(q.log)[key], n.env, "deliver "+kind+" "+ev.Name)
				}
				// the kubelet reports
				for _, l := range world.EnvProgress(n.st) {
					if strings.HasPrefix(l, "forward") || strings.HasPrefix(l, "finish") {
						st := n.st.Clone()
						if world.Apply(st, l, lag) == nil {
							push(st, n.queued, n.env, l)
						}
					}
				}
				if n.env < 2 {
					for _, name := range world.SortedKeys(n.st.API.Pods) {
						if p := n.st.API.Pods[name]; oracle.IsReady(p) && p.DeletionTimestamp == nil {
							st := n.st.Clone()
							if world.Apply(st, "unready "+name, lag) == nil {
								push(st, n.queued, n.env+1, "unready "+name)
							}
						}
					}
				}
			}
		}
	}
	rep.AddStates(states, recs)
	rep.Extra["event_driven_states"] = states
	rep.Extra["event_driven_reconciles"] = recs
}
