package main

import (
	"encoding/json"
	"fmt"
	"os"
	"time"

	"verif/internal/explore"
	"verif/internal/oracle"
	"verif/internal/world"
)

// replay re-executes a replay artefact on a fresh world without the explorer.
func init() {
	register("replay", "replay <file>: re-execute a replay artefact and print what happens", func(args []string) int {
		if len(args) != 1 {
			fmt.Fprintln(os.Stderr, "usage: check replay <file>")
			return 2
		}
		b, err := os.ReadFile(args[0])
		if err != nil {
			fmt.Fprintln(os.Stderr, err)
			return 2
		}
		var f struct {
			Property string          `json:"property"`
			Rule     string          `json:"rule"`
			Message  string          `json:"message"`
			Replay   json.RawMessage `json:"replay"`
		}
		if err := json.Unmarshal(b, &f); err != nil {
			fmt.Fprintln(os.Stderr, err)
			return 2
		}
		var kind struct {
			Kind string `json:"kind"`
		}
		json.Unmarshal(f.Replay, &kind)
		fmt.Printf("property=%s rule=%s\nrecorded: %s\n", f.Property, f.Rule, f.Message)
		if r, ok := replayers[kind.Kind]; ok {
			return r(f.Property, f.Replay)
		}
		fmt.Fprintf(os.Stderr, "replay kind %q is replayed by its own harness (see the artefact)\n", kind.Kind)
		return 2
	})
	replayers["snapshot"] = replaySnapshot
	replayers["path"] = replayPathCmd
}

func replayPathCmd(prop string, raw json.RawMessage) int {
	var p explore.PathReplay
	p.Seed = world.NewState()
	if err := json.Unmarshal(raw, &p); err != nil {
		fmt.Fprintln(os.Stderr, err)
		return 2
	}
	w := world.New()
	w.Lag = p.Lag
	w.Load(p.Seed)
	fmt.Printf("seed: %s\nnote: %s\n", p.SeedLabel, p.Note)
	n := 0
	for i, l := range p.Transitions {
		plan, isRec := explore.ParseReconcileLabel(l)
		if !isRec {
			if err := world.Apply(w.S, l, p.Lag); err != nil {
				fmt.Fprintln(os.Stderr, "replay diverged:", err)
				return 2
			}
			fmt.Printf("%2d. %s\n", i+1, l)
			continue
		}
		rec := w.Reconcile(p.Key, plan)
		fmt.Printf("%2d. %s  -> %s err=%v\n", i+1, l, explore.OutcomeSig(rec), rec.Err)
		for _, c := range rec.Calls {
			if c.IsWrite() || c.Fault != "" {
				fmt.Println("      ", c.String())
			}
		}
		v := oracle.NewView(rec)
		for id, m := range oracle.Monitors {
			for _, x := range m(v) {
				fmt.Println("      MONITOR", id, x.String())
				n++
			}
		}
	}
	fmt.Printf("final state:\n%s", w.S.Describe())
	if n > 0 {
		return 1
	}
	return 0
}

var replayers = map[string]func(prop string, raw json.RawMessage) int{}

func replaySnapshot(prop string, raw json.RawMessage) int {
	var r explore.SnapshotReplay
	r.State = world.NewState()
	if err := json.Unmarshal(raw, &r); err != nil {
		fmt.Fprintln(os.Stderr, err)
		return 2
	}
	w := world.New()
	w.Lag = r.Lag
	w.Load(r.State)
	fmt.Printf("case: %s\nstate before:\n%s", r.Label, r.State.Describe())
	rec := w.Reconcile(r.Key, r.Faults)
	fmt.Println("calls:")
	for _, c := range rec.Calls {
		fmt.Println("  ", c.String())
	}
	fmt.Printf("returned err=%v panic=%v crash=%v\n", rec.Err, rec.Panic, rec.Crash)
	if rec.Panic != nil {
		fmt.Println(rec.Stack)
	}
	n := 0
	v := oracle.NewView(rec)
	for id, m := range oracle.Monitors {
		if prop != "" && id != prop {
			continue
		}
		for _, x := range m(v) {
			fmt.Println("VIOLATION-ON-REPLAY", x.String())
			n++
		}
	}
	if len(rec.CacheMutated) > 0 {
		fmt.Println("VIOLATION-ON-REPLAY cache objects mutated:", rec.CacheMutated)
		n++
	}
	if n > 0 {
		return 1
	}
	fmt.Println("no violation on replay")
	return 0
}

// reach: a diagnostic. Replays a path artefact and prints, for the state before and after its last transition, the final
// (bottom) states that fault-free progress leads to.
func init() {
	register("reach", "reach <file>: final states reachable before/after the last transition of a path artefact (diagnostic)", func(args []string) int {
		if len(args) != 1 {
			return 2
		}
		b, err := os.ReadFile(args[0])
		if err != nil {
			fmt.Fprintln(os.Stderr, err)
			return 2
		}
		var f struct {
			Replay json.RawMessage `json:"replay"`
		}
		json.Unmarshal(b, &f)
		var p explore.PathReplay
		p.Seed = world.NewState()
		if err := json.Unmarshal(f.Replay, &p); err != nil {
			fmt.Fprintln(os.Stderr, err)
			return 2
		}
		w := world.New()
		w.Lag = p.Lag
		w.Load(p.Seed)
		var states []*world.State
		for _, l := range p.Transitions {
			states = append(states, w.S.Clone())
			if plan, isRec := explore.ParseReconcileLabel(l); isRec {
				w.Reconcile(p.Key, plan)
			} else if err := world.Apply(w.S, l, p.Lag); err != nil {
				fmt.Fprintln(os.Stderr, "replay diverged:", err)
				return 2
			}
		}
		states = append(states, w.S.Clone())
		for i, name := range []string{"before the last transition", "after the last transition"} {
			st := states[len(states)-2+i]
			fmt.Printf("==== %s\n%s", name, st.Describe())
			rep := explore.NewReport("C09", "model_checking")
			g := explore.Search(rep, explore.SearchCfg{Prop: "C09", Key: p.Key, Lag: p.Lag, D: 0, Goal: goalC02, World: w, Workers: 1, Deadline: time.Now().Add(2 * time.Minute)}, []explore.Seed{{Label: name, State: st}})
			g.Analyse()
			for id, bk := range g.Bottoms {
				q := g.PathTo(bk)
				w.Load(st.Clone())
				for _, l := range q.Transitions {
					if plan, isRec := explore.ParseReconcileLabel(l); isRec {
						w.Reconcile(p.Key, plan)
					} else {
						world.Apply(w.S, l, p.Lag)
					}
				}
				fmt.Printf("---- final state %d (scc size %d) via %v\n%s", id, g.BottomSize[id], q.Transitions, w.S.Describe())
			}
		}
		return 0
	})
}
