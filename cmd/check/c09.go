package main

import (
	"fmt"
	"strings"
	"sync"
	"time"

	v1 "k8s.io/api/core/v1"

	"verif/internal/explore"
	"verif/internal/gen"
	"verif/internal/oracle"
	"verif/internal/world"
)

// C09: a failure or crash at any API call is reported, harmless and recoverable.

func c09Seeds(thorough bool) []explore.Seed {
	g := gridOpts{N: 3, MaxR: 2, MaxSlots: 1, Policies: []string{"OrderedReady", "Parallel"},
		Strategies: []gen.Strategy{gen.RU(0), gen.RU(1), gen.OnDelete()}, Histories: []history{histories[0], histories[1], histories[4], histories[5]}, DMin: 0, DMax: 1, Limit: 1}
	if thorough {
		g.Strategies = []gen.Strategy{gen.RU(0), gen.RU(1), gen.OnDelete(), gen.OnDeleteWithBlock(1)}
		g.Histories = coreHistories
	}
	// history to trim: unused revisions beyond a limit of 0
	t := g
	t.Limit, t.MaxR, t.DMax = 0, 1, 0
	t.Histories = []history{histories[2], histories[3]}
	t.Strategies = []gen.Strategy{gen.RU(0), gen.OnDelete()}
	return append(append(searchSeeds([]gridOpts{g}), searchSeeds([]gridOpts{t})...), c09ExtraSeeds(true)...)
}

// c09ExtraSeeds: claims to create, orphans to adopt (pods and revisions) and,
// if release is set, a pod to release.
func c09ExtraSeeds(release bool) []explore.Seed {
	var seeds []explore.Seed
	w := world.New()
	for _, pol := range []string{"OrderedReady", "Parallel"} {
		sp := gen.Spec{Name: "web", Replicas: 2, Policy: pol, Strategy: gen.RU(0), Limit: 1, Template: 1, Claims: []string{"data"}}
		sc := gen.Scenario{Spec: sp, Revs: []int{1}, Cur: 0, Cells: []gen.Cell{gen.Absent, gen.Absent, gen.Absent}}
		seeds = append(seeds, explore.Seed{Label: sc.String(), State: sc.Build(w)})
		sp.Claims = []string{"data", "logs", "tmp"}
		sc = gen.Scenario{Spec: sp, Revs: []int{1}, Cur: 0, Cells: []gen.Cell{gen.Absent, gen.Absent, gen.Absent}}
		seeds = append(seeds, explore.Seed{Label: sc.String(), State: sc.Build(w)})
		sp.Claims = nil
		orphan := gen.Cell{Present: true, Phase: v1.PodRunning, Ready: true, Rev: 0, Owner: "none"}
		nomatch := gen.Cell{Present: true, Phase: v1.PodRunning, Ready: true, Rev: 0, NoMatch: true}
		pops := [][]gen.Cell{{orphan, gen.ReadyAt(0), gen.Absent}, {orphan, orphan, gen.Absent}}
		if release {
			pops = append(pops, []gen.Cell{gen.ReadyAt(0), nomatch, gen.Absent}, []gen.Cell{orphan, nomatch, gen.ReadyAt(0)})
		}
		for _, cells := range pops {
			sc := gen.Scenario{Spec: sp, Revs: []int{1}, Cur: 0, Cells: cells}
			seeds = append(seeds, explore.Seed{Label: sc.String(), State: sc.Build(w)})
		}
		// orphan revisions (as after an upgrade): all orphan, and a mix of own and orphan
		for _, mix := range []string{"all-orphan", "own+orphan"} {
			sc := gen.Scenario{Spec: gen.Spec{Name: "web", Replicas: 2, Policy: pol, Strategy: gen.RU(0), Limit: 1, Template: 2}, Revs: []int{1, 2}, Cur: 0, Cells: []gen.Cell{gen.ReadyAt(0), gen.ReadyAt(1), gen.Absent}}
			st := sc.Build(w)
			i := 0
			for _, n := range world.SortedKeys(st.API.Revs) {
				r := st.API.Revs[n].DeepCopy()
				if mix == "all-orphan" || i == 0 {
					r.OwnerReferences = nil
					r.Labels = map[string]string{"apps.pingcap.com/upgrade-to-asts": "web", "controller.kubernetes.io/hash": r.Labels["controller.kubernetes.io/hash"]}
				}
				st.API.Revs[n] = r
				i++
			}
			seeds = append(seeds, explore.Seed{Label: sc.String() + " revisions " + mix, State: st})
		}
	}
	return seeds
}

func init() {
	register("c09", "a failure or crash at any API call is reported, harmless and recoverable", func([]string) int {
		thorough := explore.Tier() == "thorough"
		rep := explore.NewReport("C09", "fault_enumeration")
		rep.Assumptions = append([]string{"fault model of DESIGN.md 2.5 (truthful by construction); a crash restarts the controller with freshly listed caches",
			"recovery equivalence: the bottom SCCs reachable after a fault are among those reachable without it (computed on the progress graph)"}, apiAssumptions...)
		seeds := c09Seeds(thorough)
		kinds := []string{world.FErr500, world.FTimeout, world.FConflict, world.FConflictFresh, world.FGone, world.FExists, world.FCrashBefore, world.FCrashAfter}
		D := 1
		if thorough {
			D = 2
		}
		judge := monitorOf("C03", "C04", "C05", "C06", "C07", "C10", "C12", "C13")
		cfg := explore.SearchCfg{Prop: "C09", D: D, FaultKinds: kinds, Judge: judge, RelabelAfterDeviation: true, KeepDevEdges: true,
			Goal: goalC02, Excuse: excuseC02,
			Deadline: explore.Deadline(100*time.Second, 20*time.Minute),
			OnFault: func(from *world.State, label string, base, f *world.Rec) []oracle.Violation {
				if !(strings.HasSuffix(label, "="+world.FErr500) || strings.HasSuffix(label, "="+world.FTimeout) || strings.HasSuffix(label, "="+world.FConflictFresh)) {
					return nil
				}
				if f.Err != nil || f.Panic != nil {
					return nil
				}
				if f.After.Key() == base.After.Key() {
					return nil // absorbed by an internal retry: same outcome as without the fault
				}
				return []oracle.Violation{{Prop: "C09", Rule: "failure-swallowed", Msg: fmt.Sprintf("%s: the call failed, the reconcile reported success, and the state differs from the fault-free outcome", label)}}
			}}
		g := explore.Search(rep, cfg, seeds)
		g.Analyse()
		edges := g.CheckRecovery(rep, func(label string) bool { return strings.HasPrefix(label, "reconcile!") },
			func(label string) bool { return strings.HasSuffix(label, "="+world.FGone) })
		for k := range g.Nodes {
			rep.Count(k, true, "")
		}
		nFault := map[string]int{}
		shown := 0
		for k, n := range g.Nodes {
			for _, d := range n.Dev {
				kind := d.Label[strings.LastIndex(d.Label, "=")+1:]
				nFault[kind]++
				if shown < 4 && kind != world.FErr500 {
					shown++
					p := g.PathTo(k)
					rep.Sample(map[string]interface{}{"seed": p.SeedLabel, "path": append(p.Transitions, d.Label)})
				}
			}
		}
		// one process from the failure to the end: the search above hands every state to whichever worker is free,
		// so what a controller keeps in memory between reconciles is not part of what it explores. Here one controller
		// instance takes the failure and then runs on, reconcile after reconcile, to quiescence (canonical schedule:
		// reconcile, then every enabled kubelet/cache step), and must end where the failure-free run of the same
		// schedule ends; every worker's controller lives through many such runs, as a long-running process would.
		{
			jseeds := seeds
			if !thorough && len(jseeds) > 400 {
				jseeds = jseeds[:400]
			}
			run := func(w *world.World, st *world.State, plan world.FaultPlan) (*world.State, []*world.Call, string) {
				w.Lag = 0
				w.Load(st.Clone())
				var first []*world.Call
				for i := 0; i < 60; i++ {
					var p world.FaultPlan
					if i == 0 {
						p = plan
					}
					rec := w.Reconcile(world.NS+"/web", p)
					if i == 0 {
						first = rec.Calls
					}
					if rec.Panic != nil {
						return w.S.Clone(), first, fmt.Sprintf("reconcile %d panicked: %v", i, rec.Panic)
					}
					progressed := len(rec.Writes()) > 0 || rec.Err != nil
					for _, l := range world.EnvProgress(w.S) {
						world.Apply(w.S, l, 0)
						progressed = true
					}
					if !progressed {
						return w.S.Clone(), first, ""
					}
					if rec.Err != nil && i > 45 {
						return w.S.Clone(), first, fmt.Sprintf("still failing after %d reconciles: %v", i, rec.Err)
					}
				}
				return w.S.Clone(), first, "still acting after 60 rounds"
			}
			var jmu sync.Mutex
			var journeys int64
			jch := make(chan explore.Seed, 64)
			var jwg sync.WaitGroup
			jdeadline := explore.Deadline(60*time.Second, 10*time.Minute)
			for i := 0; i < explore.Workers(); i++ {
				jwg.Add(1)
				go func() {
					defer jwg.Done()
					w := world.New()
					for sd := range jch {
						base, calls, why := run(w, sd.State, nil)
						if why != "" || goalC02(base) != "" && excuseC02(base) == "" {
							continue // not a converging seed on its own: judged by the search above
						}
						n := int64(0)
						for _, c := range calls {
							for _, kind := range []string{world.FErr500, world.FTimeout, world.FConflictFresh} {
								if kind == world.FTimeout && !c.IsWrite() {
									continue
								}
								if kind == world.FConflictFresh && !(c.Verb == "update" || c.Verb == "patch") {
									continue
								}
								n++
								end, _, why := run(w, sd.State, world.FaultPlan{c.ID: kind})
								label := fmt.Sprintf("%s; one controller instance: reconcile with %s=%s, then reconcile/kubelet rounds to quiescence", sd.Label, c.ID, kind)
								switch {
								case why != "":
									rep.Violation("C09", "no-recovery-in-one-process", label+": "+why, func() interface{} {
										return map[string]interface{}{"kind": "c09-journey", "seed": sd.Label, "fault": c.ID + "=" + kind}
									})
								case end.Key() != base.Key():
									rep.Violation("C09", "recovery-in-one-process-ends-elsewhere", label+": the run ends in a state other than the failure-free run of the same schedule: "+goalC02(end), func() interface{} {
										return map[string]interface{}{"kind": "c09-journey", "seed": sd.Label, "fault": c.ID + "=" + kind, "end": end.Describe(), "failure_free_end": base.Describe()}
									})
								}
							}
						}
						jmu.Lock()
						journeys += n
						jmu.Unlock()
					}
				}()
			}
			for i, sd := range jseeds {
				if time.Now().After(jdeadline) {
					rep.Exhaustive, rep.Cap = false, fmt.Sprintf("single-process journeys: deadline after %d of %d seeds", i, len(jseeds))
					break
				}
				jch <- sd
			}
			close(jch)
			jwg.Wait()
			rep.AddStates(journeys, journeys)
			rep.Extra["single_process_journeys"] = journeys
		}
		rep.Extra["seeds"] = len(seeds)
		rep.Extra["reconciles"] = g.Reconciles
		rep.Extra["fault_edges_by_kind"] = nFault
		rep.Extra["recovery_edges_checked"] = edges
		rep.Extra["fault_depth"] = D
		rep.Extra["bottom_sccs"] = len(g.Bottoms)
		rep.Rule = fmt.Sprintf("fault/crash-point enumeration on the real reconciler: %d seed states (3-ordinal spec grid x populations, plus seeds with claims to create, orphan pods and revisions to adopt, a pod to release); from every state of their progress closure, every API call of its reconcile (reads and writes) x every applicable fault kind %v is injected (depth %d: a second fault anywhere in the recovery), then the recovery closure is explored. Oracle: (1) an InternalError, a lost response or a conflict (with caches refreshed for the retry) is reported (non-nil error) or absorbed with the same outcome; (2) the safety monitors of C03-C07, C10, C12, C13 hold on the partial reconcile and on every reconcile of the recovery (reports are attributed to C09 only after a fault); (3) every final state reachable after the fault is a quiescent goal state and is reachable without the fault (the latter is not demanded for `gone`, where someone else deleted an object and the world legitimately differs). (4) single-process journeys: from every seed, every call of its first reconcile x {InternalError, lost response, refreshed conflict} on ONE controller instance (a crash ends the process, so it is left to the search) that then runs on to quiescence under a canonical schedule, ending where the failure-free run ends (what a controller keeps in memory between reconciles is exercised as in a long-running process). Non-trivial/distinct = states.", len(seeds), kinds, D)
		rep.Validated = g.Reconciles
		return rep.Finish()
	})
}
