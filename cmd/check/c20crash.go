package main

import (
	"fmt"
	"os"
	"strings"

	"verif/internal/explore"
)

// c20crash turns a crash of the C20 test binary inside the watch code (an
// unrecoverable panic in the relay goroutine) into a proper violation report.
func init() {
	register("c20crash", "c20crash <stderr file>: report a crash of the C20 exploration inside the watch code", func(args []string) int {
		if len(args) != 1 {
			return 2
		}
		b, err := os.ReadFile(args[0])
		if err != nil {
			fmt.Fprintln(os.Stderr, err)
			return 2
		}
		text := string(b)
		i := strings.Index(text, "panic:")
		if i < 0 || !strings.Contains(text[i:], "hijackWatch") {
			fmt.Fprintln(os.Stderr, "C20 harness did not finish and the crash is not in the watch code:")
			fmt.Fprintln(os.Stderr, text[max(0, len(text)-3000):])
			return 2
		}
		msg := strings.SplitN(text[i:], "\n", 2)[0]
		rep := explore.NewReport("C20", "model_checking")
		rep.Exhaustive = false
		rep.Cap = "the exploration stopped at the first schedule in which a goroutine of the watch panicked (the process cannot survive it)"
		rep.Rule = "stateless exploration of the hijacked watch under a controlled scheduler (see DESIGN.md 4/C20); this run ended early because the watch code panicked in a goroutine"
		rep.Count([16]byte{1}, true, "crash")
		rep.Count([16]byte{2}, true, "crash")
		rep.Sample(map[string]interface{}{"crash": msg})
		tail := text[i:]
		if len(tail) > 6000 {
			tail = tail[:6000]
		}
		rep.Violation("C20", "watch-goroutine-panic", "a goroutine of the hijacked watch panicked during the schedule exploration: "+msg, func() interface{} {
			return map[string]interface{}{"kind": "c20-crash", "output": tail}
		})
		rep.AddStates(1, 1)
		return rep.Finish()
	})
}
