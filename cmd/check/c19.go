package main

import (
	"context"
	"crypto/sha256"
	"encoding/json"
	"fmt"
	"math"
	"reflect"
	"sort"
	"strings"

	asv1 "github.com/pingcap/advanced-statefulset/client/apis/apps/v1"
	"github.com/pingcap/advanced-statefulset/client/apis/apps/v1/helper"
	pcfake "github.com/pingcap/advanced-statefulset/client/client/clientset/versioned/fake"
	appsv1 "k8s.io/api/apps/v1"
	v1 "k8s.io/api/core/v1"
	apiequality "k8s.io/apimachinery/pkg/api/equality"
	metav1 "k8s.io/apimachinery/pkg/apis/meta/v1"
	"k8s.io/apimachinery/pkg/runtime"
	"k8s.io/apimachinery/pkg/types"
	"k8s.io/apimachinery/pkg/util/sets"
	appsapplyv1 "k8s.io/client-go/applyconfigurations/apps/v1"
	coreapply "k8s.io/client-go/applyconfigurations/core/v1"
	metaapply "k8s.io/client-go/applyconfigurations/meta/v1"
	kubefake "k8s.io/client-go/kubernetes/fake"
	clienttesting "k8s.io/client-go/testing"

	"verif/internal/explore"
	"verif/internal/gen"
)

// C19: client-side helpers are lossless.

func c19Base() *appsv1.StatefulSet {
	r, lim, p := int32(3), int32(10), int32(1)
	return &appsv1.StatefulSet{
		TypeMeta:   metav1.TypeMeta{Kind: "StatefulSet", APIVersion: "apps/v1"},
		ObjectMeta: metav1.ObjectMeta{Name: "web", Namespace: "default", Labels: map[string]string{"a": "b"}, Annotations: map[string]string{"x": "y"}},
		Spec: appsv1.StatefulSetSpec{
			Replicas: &r, ServiceName: "svc", RevisionHistoryLimit: &lim, PodManagementPolicy: appsv1.ParallelPodManagement,
			Selector: &metav1.LabelSelector{MatchLabels: map[string]string{"app": "web"}},
			Template: v1.PodTemplateSpec{ObjectMeta: metav1.ObjectMeta{Labels: map[string]string{"app": "web"}},
				Spec: v1.PodSpec{Containers: []v1.Container{{Name: "c", Image: "img"}}}},
			UpdateStrategy: appsv1.StatefulSetUpdateStrategy{Type: appsv1.RollingUpdateStatefulSetStrategyType, RollingUpdate: &appsv1.RollingUpdateStatefulSetStrategy{Partition: &p}},
		},
		Status: appsv1.StatefulSetStatus{Replicas: 3, ReadyReplicas: 2, CurrentRevision: "web-1"},
	}
}

// jsonIncluded reports whether every value present in a is present and equal
// in b (maps recursively; lists element-wise with equal length).
func jsonIncluded(a, b interface{}, path string) string {
	switch x := a.(type) {
	case map[string]interface{}:
		y, ok := b.(map[string]interface{})
		if !ok {
			return fmt.Sprintf("%s: object became %T", path, b)
		}
		keys := make([]string, 0, len(x))
		for k := range x {
			keys = append(keys, k)
		}
		sort.Strings(keys)
		for _, k := range keys {
			yv, ok := y[k]
			if !ok {
				return fmt.Sprintf("%s.%s: lost (was %v)", path, k, short(x[k]))
			}
			if d := jsonIncluded(x[k], yv, path+"."+k); d != "" {
				return d
			}
		}
	case []interface{}:
		y, ok := b.([]interface{})
		if !ok || len(x) != len(y) {
			return fmt.Sprintf("%s: list of %d items became %v", path, len(x), short(b))
		}
		for i := range x {
			if d := jsonIncluded(x[i], y[i], fmt.Sprintf("%s[%d]", path, i)); d != "" {
				return d
			}
		}
	default:
		if !reflect.DeepEqual(a, b) {
			return fmt.Sprintf("%s: %v became %v", path, short(a), short(b))
		}
	}
	return ""
}

func short(v interface{}) string {
	b, _ := json.Marshal(v)
	if len(b) > 120 {
		return string(b[:120]) + "..."
	}
	return string(b)
}

func toTree(v interface{}) interface{} {
	b, _ := json.Marshal(v)
	var t interface{}
	json.Unmarshal(b, &t)
	return t
}

func init() {
	register("c19", "client-side helpers are lossless (conversion, annotation codecs, defaulting idempotence)", func([]string) int {
		thorough := explore.Tier() == "thorough"
		rep := explore.NewReport("C19", "model_checking")
		tb := reflect.TypeOf(appsv1.StatefulSet{})
		ta := reflect.TypeOf(asv1.StatefulSet{})
		unmodelled := gen.UnmodelledPaths(tb, ta)
		extraInAdv := gen.UnmodelledPaths(ta, tb)
		depth := 7
		if thorough {
			depth = 12
		}
		muts := gen.Mutations(tb, depth)
		rep.Extra["builtin_only_paths"] = unmodelled
		rep.Extra["advanced_only_paths"] = extraInAdv
		rep.Extra["single_field_mutations"] = len(muts)
		rep.Rule = fmt.Sprintf("bounded-exhaustive objects from a reflective generator over k8s.io/api/apps/v1.StatefulSet (depth %d): a populated base object with every reachable path set, one at a time, to each variant (leaf: two typical values and zero; pointer: nil / pointer to zero / populated; slice: nil / empty / 1 / 3 items; map: nil / empty / one entry), all pairs of mutations among the set-level fields (metadata.*, spec.*, status.* first level; thorough: second level too), and the same on an empty base object; slot sets = all subsets of {MinInt32,-1,0,1,2,MaxInt32}; annotation maps {nil, {}, other keys, pre-existing slots/pause}. Oracles: To(From(x)) semantically equals x with the built-in-only paths (computed by reflection) zeroed, apiVersion apps/v1, no error; list conversion keeps length and order; write/read through the hijack client on a fake keeps every value the input had; Set.Get = id, Add = union, empty removes the key, other annotations untouched, same for pause; edit histories through the hijack client (create with slots S1/pause P1, read, update to S2/P2 for all S1,S2 subsets of {0,1,2}: the update result, a fresh read and the stored Advanced object all say S2/P2 and an emptied slot set leaves no annotation); List through the client over an underlying list of 0..4, 63, 64, 65, 129 and 200 items (thorough: 1000) served in a fixed non-sorted order, the items differing in which fields they carry at all (length, order, list resourceVersion/continue, item types and content), UpdateStatus (every status field, slots untouched) and Patch (result equals the stored object); every member of VolumeSource alone in a template volume keeps being the volume's only source; apply configurations built from ten builder steps (alone, in every ordered pair, all together) convert to a configuration that says the same, typed for the Advanced API; D(D(o)) = D(o) and re-submitting a read-back object leaves the template unchanged. Non-trivial = the mutated object differs from the base.", depth)
		rep.Assumptions = []string{"fields the Advanced API models = JSON paths present in both Go types (computed by reflection over struct tags)", "timestamps are generated at second granularity (the API's own)", "the hijack client is exercised on client-go's stock fake object tracker"}
		ctx := context.TODO()
		var n int64
		kube, pc := kubefake.NewSimpleClientset(), pcfake.NewSimpleClientset()
		hc := helper.NewHijackClient(kube, pc)

		checkObject := func(label string, x *appsv1.StatefulSet, viaClient bool) {
			n++
			// the raw Go value must convert without error; the comparison is made on the object as
			// an API client can hold it, i.e. after one JSON round trip through its own type (a Go
			// value such as a pointer to the zero Time has no JSON form of its own)
			if _, err := helper.FromBuiltinStatefulSet(x); err != nil {
				rep.Violation("C19", "conversion-error", label+": FromBuiltinStatefulSet failed on the raw value: "+err.Error(), nil)
				return
			}
			{
				b, _ := json.Marshal(x)
				c := &appsv1.StatefulSet{}
				if err := json.Unmarshal(b, c); err != nil {
					return // not an object the API can carry
				}
				x = c
			}
			orig := x.DeepCopy()
			bad := func(rule, f string, a ...interface{}) {
				msg := label + ": " + fmt.Sprintf(f, a...)
				rep.Violation("C19", rule, msg, func() interface{} {
					return map[string]interface{}{"kind": "c19-object", "mutation": label, "object": orig}
				})
			}
			adv, err := helper.FromBuiltinStatefulSet(x)
			if err != nil {
				bad("conversion-error", "FromBuiltinStatefulSet failed: %v", err)
				return
			}
			back, err := helper.ToBuiltinStatefulSet(adv)
			if err != nil {
				bad("conversion-error", "ToBuiltinStatefulSet failed: %v", err)
				return
			}
			if !reflect.DeepEqual(x, orig) {
				bad("input-mutated", "conversion modified its input")
			}
			want := orig.DeepCopy()
			gen.ZeroPaths(reflect.ValueOf(want), unmodelled)
			want.APIVersion = "apps/v1"
			if back.APIVersion != "apps/v1" {
				bad("api-version", "round trip yields apiVersion %q", back.APIVersion)
			}
			if adv.APIVersion != "apps.pingcap.com/v1" {
				bad("api-version", "FromBuiltin yields apiVersion %q", adv.APIVersion)
			}
			if !apiequality.Semantic.DeepEqual(want, back) {
				d := jsonIncluded(toTree(want), toTree(back), "$")
				if d == "" {
					d = jsonIncluded(toTree(back), toTree(want), "$")
				}
				bad("round-trip-lossy", "To(From(x)) differs from x: %s", d)
			}
			// defaulting is idempotent and never touches an already defaulted template
			d1 := adv.DeepCopy()
			asv1.SetObjectDefaults_StatefulSet(d1)
			d2 := d1.DeepCopy()
			asv1.SetObjectDefaults_StatefulSet(d2)
			if !reflect.DeepEqual(d1, d2) {
				bad("defaulting-not-idempotent", "D(D(o)) != D(o): %s", jsonIncluded(toTree(d2), toTree(d1), "$")+jsonIncluded(toTree(d1), toTree(d2), "$"))
			}
			h := sha256.Sum256([]byte(label))
			var k [16]byte
			copy(k[:], h[:16])
			rep.Count(k, !reflect.DeepEqual(orig, c19Base()), "")
			if !viaClient || x.Name == "" || x.Namespace == "" || x.GenerateName != "" {
				return
			}
			// through the hijack client
			cli := hc.AppsV1().StatefulSets(x.Namespace)
			created, err := cli.Create(ctx, x.DeepCopy(), metav1.CreateOptions{})
			if err != nil {
				bad("hijack-create-error", "Create failed: %v", err)
				return
			}
			got, err := cli.Get(ctx, x.Name, metav1.GetOptions{})
			if err != nil {
				bad("hijack-get-error", "Get failed: %v", err)
				return
			}
			for _, o := range []*appsv1.StatefulSet{created, got} {
				if o.APIVersion != "apps/v1" {
					bad("api-version", "hijack client returns apiVersion %q", o.APIVersion)
				}
				if d := jsonIncluded(toTree(want), toTree(o), "$"); d != "" {
					bad("hijack-write-read-lossy", "object written through the hijack client and read back lost or changed a value: %s", d)
				}
			}
			// re-submitting the read-back object must not alter the template
			upd, err := cli.Update(ctx, got.DeepCopy(), metav1.UpdateOptions{})
			if err != nil {
				bad("hijack-update-error", "Update of the read-back object failed: %v", err)
			} else if !apiequality.Semantic.DeepEqual(upd.Spec.Template, got.Spec.Template) {
				bad("resubmit-changes-template", "re-submitting a read-back object changed the pod template: %s", jsonIncluded(toTree(got.Spec.Template), toTree(upd.Spec.Template), "$")+jsonIncluded(toTree(upd.Spec.Template), toTree(got.Spec.Template), "$"))
			}
			pc.AppsV1().StatefulSets(x.Namespace).Delete(ctx, x.Name, metav1.DeleteOptions{})
			pc.ClearActions()
		}

		// single mutations on the populated base and on an empty base
		for _, m := range muts {
			x := c19Base()
			m.Apply(reflect.ValueOf(x).Elem())
			checkObject("base+"+m.Path+"="+m.Variant, x, true)
			y := &appsv1.StatefulSet{ObjectMeta: metav1.ObjectMeta{Name: "web", Namespace: "default"}}
			m.Apply(reflect.ValueOf(y).Elem())
			checkObject("empty+"+m.Path+"="+m.Variant, y, thorough)
			if rep.WantSample() {
				rep.Sample(map[string]interface{}{"mutation": m.Path + "=" + m.Variant, "object": toTree(x)})
			}
		}
		// pairs among set-level fields
		var top []gen.Mutation
		for _, m := range muts {
			maxDots := 2
			if thorough {
				maxDots = 4 // pairs also among the fields two levels further down (strategy, selector, template metadata and spec)
			}
			if c := strings.Count(m.Path, "."); c <= maxDots && !strings.Contains(m.Path, "[") {
				top = append(top, m)
			}
		}
		rep.Extra["set_level_mutations"] = len(top)
		for i := range top {
			for j := i + 1; j < len(top); j++ {
				if top[i].Path == top[j].Path {
					continue
				}
				x := c19Base()
				top[i].Apply(reflect.ValueOf(x).Elem())
				top[j].Apply(reflect.ValueOf(x).Elem())
				checkObject(fmt.Sprintf("base+%s=%s+%s=%s", top[i].Path, top[i].Variant, top[j].Path, top[j].Variant), x, thorough)
			}
		}
		// list conversion keeps length and order
		for ln := 0; ln <= 3; ln++ {
			l := &asv1.StatefulSetList{}
			var want []*appsv1.StatefulSet
			for i := 0; i < ln; i++ {
				x := c19Base()
				x.Name = fmt.Sprintf("set-%d", (i*2)%3)
				a, _ := helper.FromBuiltinStatefulSet(x)
				l.Items = append(l.Items, *a)
				b, _ := helper.ToBuiltinStatefulSet(a)
				want = append(want, b)
			}
			out, err := helper.ToBuiltinStetefulsetList(l)
			n++
			if err != nil || len(out.Items) != ln {
				rep.Violation("C19", "list-length", fmt.Sprintf("list of %d items converts to %d items (err=%v)", ln, len(out.Items), err), nil)
				continue
			}
			for i := range want {
				if !apiequality.Semantic.DeepEqual(want[i], &out.Items[i]) || out.Items[i].APIVersion != "apps/v1" {
					rep.Violation("C19", "list-order-or-content", fmt.Sprintf("item %d of a %d-item list differs after conversion", i, ln), nil)
				}
			}
		}
		// annotation codecs
		universe := []int32{math.MinInt32, -1, 0, 1, 2, math.MaxInt32}
		slotSets := gen.Subsets(universe, len(universe))
		annMaps := []map[string]string{nil, {}, {"other": "v"}, {"other": "v", "delete-slots": "[0,5]"}, {"paused-reconcile": "true", "k": "v"}, {"delete-slots": "garbage", "paused-reconcile": "false"}}
		eq := func(a sets.Int32, b []int32) bool {
			if a.Len() != len(b) {
				return false
			}
			for _, x := range b {
				if !a.Has(x) {
					return false
				}
			}
			return true
		}
		others := func(m map[string]string) string {
			var l []string
			for k, v := range m {
				if k != "delete-slots" && k != "paused-reconcile" {
					l = append(l, k+"="+v)
				}
			}
			sort.Strings(l)
			return strings.Join(l, ",")
		}
		copyMap := func(m map[string]string) map[string]string {
			if m == nil {
				return nil
			}
			o := map[string]string{}
			for k, v := range m {
				o[k] = v
			}
			return o
		}
		for ai, am := range annMaps {
			for _, ss := range slotSets {
				n++
				label := fmt.Sprintf("annotations#%d slots=%v", ai, ss)
				badA := func(rule, f string, a ...interface{}) {
					rep.Violation("C19", rule, label+": "+fmt.Sprintf(f, a...), func() interface{} {
						return map[string]interface{}{"kind": "c19-annotation", "annotations": am, "slots": ss}
					})
				}
				h := sha256.Sum256([]byte(label))
				var k [16]byte
				copy(k[:], h[:16])
				rep.Count(k, len(ss) > 0, "")
				obj := &appsv1.StatefulSet{ObjectMeta: metav1.ObjectMeta{Annotations: copyMap(am)}}
				in := sets.NewInt32(ss...)
				if err := helper.SetDeleteSlots(obj, in); err != nil {
					badA("slots-set-error", "SetDeleteSlots failed: %v", err)
					continue
				}
				if !eq(in, ss) {
					badA("input-mutated", "SetDeleteSlots modified the caller's set")
				}
				if got := helper.GetDeleteSlots(obj); !eq(got, ss) {
					badA("slots-set-get", "Get(Set(s)) = %v, want %v", got.List(), ss)
				}
				if _, has := obj.Annotations["delete-slots"]; len(ss) == 0 && has {
					badA("slots-empty-keeps-key", "writing an empty set leaves the annotation in place: %q", obj.Annotations["delete-slots"])
				}
				if others(obj.Annotations) != others(am) || obj.Annotations["paused-reconcile"] != am["paused-reconcile"] {
					badA("slots-disturbs-annotations", "other annotations changed: %v -> %v", am, obj.Annotations)
				}
				// Add = union with what is there
				obj2 := &appsv1.StatefulSet{ObjectMeta: metav1.ObjectMeta{Annotations: copyMap(am)}}
				before := helper.GetDeleteSlots(obj2)
				if err := helper.AddDeleteSlots(obj2, sets.NewInt32(ss...)); err != nil {
					badA("slots-add-error", "AddDeleteSlots failed: %v", err)
				} else if got := helper.GetDeleteSlots(obj2); !got.Equal(before.Union(sets.NewInt32(ss...))) {
					badA("slots-add-union", "Add yields %v, want union %v", got.List(), before.Union(sets.NewInt32(ss...)).List())
				}
				if others(obj2.Annotations) != others(am) || obj2.Annotations["paused-reconcile"] != am["paused-reconcile"] {
					badA("slots-disturbs-annotations", "AddDeleteSlots changed other annotations: %v -> %v", am, obj2.Annotations)
				}
			}
			for _, paused := range []bool{true, false} {
				n++
				obj := &appsv1.StatefulSet{ObjectMeta: metav1.ObjectMeta{Annotations: copyMap(am)}}
				helper.SetPausedReconcile(obj, paused)
				label := fmt.Sprintf("annotations#%d pause=%v", ai, paused)
				if helper.GetPausedReconcile(obj) != paused {
					rep.Violation("C19", "pause-set-get", label+": Get(Set(p)) != p", nil)
				}
				if _, has := obj.Annotations["paused-reconcile"]; !paused && has {
					rep.Violation("C19", "pause-false-keeps-key", label+": unpausing leaves the annotation in place", nil)
				}
				if others(obj.Annotations) != others(am) || obj.Annotations["delete-slots"] != am["delete-slots"] {
					rep.Violation("C19", "pause-disturbs-annotations", fmt.Sprintf("%s: other annotations changed: %v -> %v", label, am, obj.Annotations), nil)
				}
			}
		}
		// annotation edits through the hijack client: what the last write said is what every later read says
		small := gen.Subsets([]int32{0, 1, 2}, 3)
		for ai, am := range annMaps {
			for _, s1 := range small {
				for _, s2 := range small {
					for pp := 0; pp < 4; pp++ {
						p1, p2 := pp&1 != 0, pp&2 != 0
						n++
						label := fmt.Sprintf("hijack client: create with annotations#%d slots=%v paused=%v, then update to slots=%v paused=%v", ai, s1, p1, s2, p2)
						badH := func(rule, f string, a ...interface{}) {
							rep.Violation("C19", rule, label+": "+fmt.Sprintf(f, a...), func() interface{} {
								return map[string]interface{}{"kind": "c19-hijack-edit", "annotations": am, "slots1": s1, "slots2": s2, "paused1": p1, "paused2": p2}
							})
						}
						h := sha256.Sum256([]byte(label))
						var k [16]byte
						copy(k[:], h[:16])
						rep.Count(k, true, "")
						x := c19Base()
						x.Annotations = copyMap(am)
						helper.SetDeleteSlots(x, sets.NewInt32(s1...))
						helper.SetPausedReconcile(x, p1)
						cli := hc.AppsV1().StatefulSets(x.Namespace)
						if _, err := cli.Create(ctx, x.DeepCopy(), metav1.CreateOptions{}); err != nil {
							badH("hijack-create-error", "Create failed: %v", err)
							continue
						}
						got, err := cli.Get(ctx, x.Name, metav1.GetOptions{})
						if err != nil {
							badH("hijack-get-error", "Get failed: %v", err)
						} else {
							if !eq(helper.GetDeleteSlots(got), s1) || helper.GetPausedReconcile(got) != p1 || others(got.Annotations) != others(x.Annotations) {
								badH("hijack-annotations-lossy", "read back annotations %v, wrote %v", got.Annotations, x.Annotations)
							}
							y := got.DeepCopy()
							helper.SetDeleteSlots(y, sets.NewInt32(s2...))
							helper.SetPausedReconcile(y, p2)
							upd, err := cli.Update(ctx, y.DeepCopy(), metav1.UpdateOptions{})
							if err != nil {
								badH("hijack-update-error", "Update failed: %v", err)
							} else {
								again, _ := cli.Get(ctx, x.Name, metav1.GetOptions{})
								stored, _ := pc.AppsV1().StatefulSets(x.Namespace).Get(ctx, x.Name, metav1.GetOptions{})
								for _, o := range []metav1.Object{upd, again, stored} {
									if o == nil || reflect.ValueOf(o).IsNil() {
										badH("hijack-get-error", "object missing after Update")
										continue
									}
									if !eq(helper.GetDeleteSlots(o), s2) || helper.GetPausedReconcile(o) != p2 || others(o.GetAnnotations()) != others(y.Annotations) {
										badH("hijack-annotations-lossy", "after the update annotations read %v, wrote %v", o.GetAnnotations(), y.Annotations)
									}
									if _, has := o.GetAnnotations()["delete-slots"]; len(s2) == 0 && has {
										badH("slots-empty-keeps-key", "an empty slot set written through the client leaves the annotation in place: %q", o.GetAnnotations()["delete-slots"])
									}
								}
							}
						}
						pc.AppsV1().StatefulSets(x.Namespace).Delete(ctx, x.Name, metav1.DeleteOptions{})
						pc.ClearActions()
					}
				}
			}
		}
		// the other verbs of the hijack client: List (length, order, list metadata, item types), UpdateStatus, Patch
		{
			pc2 := pcfake.NewSimpleClientset()
			hc2 := helper.NewHijackClient(kubefake.NewSimpleClientset(), pc2)
			var served *asv1.StatefulSetList
			pc2.PrependReactor("list", "statefulsets", func(clienttesting.Action) (bool, runtime.Object, error) { return true, served.DeepCopy(), nil })
			names := []string{"set-b", "set-a", "set-c", "set-a2"}
			lens := []int{0, 1, 2, 3, 4, 63, 64, 65, 129, 200}
			if thorough {
				lens = append(lens, 1000)
			}
			for _, ln := range lens {
				for rot := 0; rot < 2; rot++ {
					n++
					served = &asv1.StatefulSetList{ListMeta: metav1.ListMeta{ResourceVersion: "42", Continue: "tok"}}
					var want []*appsv1.StatefulSet
					for i := 0; i < ln; i++ {
						x := c19Base()
						x.Name = fmt.Sprintf("%s-%d", names[(i+rot*2)%len(names)], i/len(names))
						x.ResourceVersion = fmt.Sprint(10 + i)
						helper.SetDeleteSlots(x, sets.NewInt32(int32(i)))
						// items differ in what they have at all: later items lack what earlier ones carry
						switch i % 4 {
						case 1:
							x.Annotations = nil
							x.Spec.Replicas = nil
						case 2:
							x.Labels = nil
							x.Spec.UpdateStrategy = appsv1.StatefulSetUpdateStrategy{}
							x.Status = appsv1.StatefulSetStatus{}
						case 3:
							x.Spec.Template.Spec.Containers = append(x.Spec.Template.Spec.Containers, v1.Container{Name: "side", Image: "img2"})
						}
						a, _ := helper.FromBuiltinStatefulSet(x)
						served.Items = append(served.Items, *a)
						want = append(want, x)
					}
					label := fmt.Sprintf("hijack client List of %d items (rotation %d)", ln, rot)
					got, err := hc2.AppsV1().StatefulSets("default").List(ctx, metav1.ListOptions{})
					h := sha256.Sum256([]byte(label))
					var k [16]byte
					copy(k[:], h[:16])
					rep.Count(k, ln > 0, "")
					if err != nil || got == nil {
						rep.Violation("C19", "hijack-list-error", fmt.Sprintf("%s: %v", label, err), nil)
						continue
					}
					if len(got.Items) != ln {
						rep.Violation("C19", "list-length", fmt.Sprintf("%s: %d items returned", label, len(got.Items)), nil)
						continue
					}
					if got.ResourceVersion != "42" || got.Continue != "tok" {
						rep.Violation("C19", "list-metadata-lost", fmt.Sprintf("%s: list metadata resourceVersion=%q continue=%q, the underlying list said 42 / tok", label, got.ResourceVersion, got.Continue), nil)
					}
					for i := range want {
						if got.Items[i].APIVersion != "apps/v1" {
							rep.Violation("C19", "api-version", fmt.Sprintf("%s: item %d typed %q", label, i, got.Items[i].APIVersion), nil)
						}
						if d := jsonIncluded(toTree(want[i]), toTree(&got.Items[i]), "$"); d != "" {
							rep.Violation("C19", "list-order-or-content", fmt.Sprintf("%s: item %d differs: %s", label, i, d), nil)
						}
					}
				}
			}
			// UpdateStatus and Patch on a stored object
			pc3 := pcfake.NewSimpleClientset()
			cli := helper.NewHijackClient(kubefake.NewSimpleClientset(), pc3).AppsV1().StatefulSets("default")
			for _, ss := range small {
				n++
				label := fmt.Sprintf("hijack client UpdateStatus/Patch with slots=%v", ss)
				h := sha256.Sum256([]byte(label))
				var k [16]byte
				copy(k[:], h[:16])
				rep.Count(k, true, "")
				x := c19Base()
				helper.SetDeleteSlots(x, sets.NewInt32(ss...))
				created, err := cli.Create(ctx, x.DeepCopy(), metav1.CreateOptions{})
				if err != nil {
					rep.Violation("C19", "hijack-create-error", label+": "+err.Error(), nil)
					continue
				}
				y := created.DeepCopy()
				cc := int32(2)
				y.Status = appsv1.StatefulSetStatus{ObservedGeneration: 4, Replicas: 3, ReadyReplicas: 1, CurrentReplicas: 2, UpdatedReplicas: 1, CurrentRevision: "web-a", UpdateRevision: "web-b", CollisionCount: &cc,
					Conditions: []appsv1.StatefulSetCondition{{Type: "Custom", Status: v1.ConditionTrue, Reason: "r", Message: "m"}}}
				us, err := cli.UpdateStatus(ctx, y.DeepCopy(), metav1.UpdateOptions{})
				if err != nil {
					rep.Violation("C19", "hijack-update-status-error", label+": "+err.Error(), nil)
				} else {
					back, _ := cli.Get(ctx, x.Name, metav1.GetOptions{})
					for _, o := range []*appsv1.StatefulSet{us, back} {
						if o == nil || o.APIVersion != "apps/v1" {
							rep.Violation("C19", "api-version", label+": UpdateStatus result not typed apps/v1", nil)
							continue
						}
						if d := jsonIncluded(toTree(y.Status), toTree(o.Status), "$.status"); d != "" {
							rep.Violation("C19", "hijack-write-read-lossy", label+": status written through the hijack client and read back lost or changed a value: "+d, nil)
						}
						if !eq(helper.GetDeleteSlots(o), ss) {
							rep.Violation("C19", "hijack-annotations-lossy", fmt.Sprintf("%s: slots read %v after a status write", label, helper.GetDeleteSlots(o).List()), nil)
						}
					}
				}
				pt, err := cli.Patch(ctx, x.Name, types.MergePatchType, []byte(`{"metadata":{"annotations":{"patched":"yes"}}}`), metav1.PatchOptions{})
				if err != nil {
					rep.Violation("C19", "hijack-patch-error", label+": "+err.Error(), nil)
				} else {
					stored, _ := pc3.AppsV1().StatefulSets("default").Get(ctx, x.Name, metav1.GetOptions{})
					wantB, _ := helper.ToBuiltinStatefulSet(stored)
					if pt.APIVersion != "apps/v1" || pt.Annotations["patched"] != "yes" || !eq(helper.GetDeleteSlots(pt), ss) {
						rep.Violation("C19", "hijack-patch-lossy", fmt.Sprintf("%s: patch result typed %q annotations %v", label, pt.APIVersion, pt.Annotations), nil)
					}
					if d := jsonIncluded(toTree(wantB), toTree(pt), "$"); d != "" {
						rep.Violation("C19", "hijack-patch-lossy", label+": patch result differs from the stored object: "+d, nil)
					}
				}
				pc3.AppsV1().StatefulSets("default").Delete(ctx, x.Name, metav1.DeleteOptions{})
			}
		}
		// unions: a volume names exactly one source. Every member of VolumeSource alone in a template volume, written
		// through the hijack client (which defaults on the way in): defaulting may fill an empty union, it must not add a
		// second member to one that has a member already
		{
			pcU := pcfake.NewSimpleClientset()
			cli := helper.NewHijackClient(kubefake.NewSimpleClientset(), pcU).AppsV1().StatefulSets("default")
			vt := reflect.TypeOf(v1.VolumeSource{})
			members := func(vs v1.VolumeSource) []string {
				var out []string
				rv := reflect.ValueOf(vs)
				for i := 0; i < rv.NumField(); i++ {
					if rv.Field(i).Kind() == reflect.Ptr && !rv.Field(i).IsNil() {
						out = append(out, vt.Field(i).Name)
					}
				}
				return out
			}
			for i := -1; i < vt.NumField(); i++ {
				n++
				x := c19Base()
				vol := v1.Volume{Name: "v"}
				label := "template volume without a source"
				if i >= 0 {
					if vt.Field(i).Type.Kind() != reflect.Ptr {
						continue
					}
					reflect.ValueOf(&vol.VolumeSource).Elem().Field(i).Set(reflect.New(vt.Field(i).Type.Elem()))
					label = "template volume whose only source is " + vt.Field(i).Name
				}
				x.Spec.Template.Spec.Volumes = []v1.Volume{vol}
				h := sha256.Sum256([]byte(label))
				var k [16]byte
				copy(k[:], h[:16])
				rep.Count(k, true, "")
				if _, err := cli.Create(ctx, x.DeepCopy(), metav1.CreateOptions{}); err != nil {
					rep.Violation("C19", "hijack-create-error", label+": "+err.Error(), nil)
					continue
				}
				got, err := cli.Get(ctx, x.Name, metav1.GetOptions{})
				if err != nil || len(got.Spec.Template.Spec.Volumes) != 1 {
					rep.Violation("C19", "hijack-get-error", fmt.Sprintf("%s: read back failed or volume list changed: %v", label, err), nil)
				} else {
					before, after := members(vol.VolumeSource), members(got.Spec.Template.Spec.Volumes[0].VolumeSource)
					if len(before) >= 1 && fmt.Sprint(before) != fmt.Sprint(after) {
						rep.Violation("C19", "hijack-write-read-lossy", fmt.Sprintf("%s: written with sources %v, read back with sources %v", label, before, after), nil)
					}
				}
				pcU.AppsV1().StatefulSets("default").Delete(ctx, x.Name, metav1.DeleteOptions{})
			}
		}
		// apply configurations (what the hijack client's Apply/ApplyStatus convert before sending): every builder step
		// alone, every pair, and all together; the converted configuration says the same, typed for the Advanced API
		{
			type step struct {
				name string
				f    func(*appsapplyv1.StatefulSetApplyConfiguration)
			}
			part := int32(2)
			steps := []step{
				{"labels", func(a *appsapplyv1.StatefulSetApplyConfiguration) { a.WithLabels(map[string]string{"a": "b"}) }},
				{"annotations+slots", func(a *appsapplyv1.StatefulSetApplyConfiguration) {
					a.WithAnnotations(map[string]string{"delete-slots": "[1,3]", "paused-reconcile": "true", "x": "y"})
				}},
				{"resourceVersion+uid", func(a *appsapplyv1.StatefulSetApplyConfiguration) {
					a.WithResourceVersion("42").WithUID("uid-1").WithGeneration(7)
				}},
				{"finalizers+owners", func(a *appsapplyv1.StatefulSetApplyConfiguration) {
					a.WithFinalizers("f1", "f2").WithOwnerReferences(metaapply.OwnerReference().WithAPIVersion("v1").WithKind("ConfigMap").WithName("cm").WithUID("u").WithController(true))
				}},
				{"spec.replicas+service", func(a *appsapplyv1.StatefulSetApplyConfiguration) {
					a.WithSpec(specOf(a).WithReplicas(0).WithServiceName("svc").WithRevisionHistoryLimit(0))
				}},
				{"spec.selector", func(a *appsapplyv1.StatefulSetApplyConfiguration) {
					a.WithSpec(specOf(a).WithSelector(metaapply.LabelSelector().WithMatchLabels(map[string]string{"app": "web"}).
						WithMatchExpressions(metaapply.LabelSelectorRequirement().WithKey("tier").WithOperator(metav1.LabelSelectorOpNotIn).WithValues("cache"))))
				}},
				{"spec.template", func(a *appsapplyv1.StatefulSetApplyConfiguration) {
					a.WithSpec(specOf(a).WithTemplate(coreapply.PodTemplateSpec().WithLabels(map[string]string{"app": "web"}).WithSpec(coreapply.PodSpec().
						WithTerminationGracePeriodSeconds(30).WithContainers(coreapply.Container().WithName("c").WithImage("a&b<c>").WithArgs("x", "")))))
				}},
				{"spec.strategy+policy", func(a *appsapplyv1.StatefulSetApplyConfiguration) {
					a.WithSpec(specOf(a).WithPodManagementPolicy(appsv1.ParallelPodManagement).WithUpdateStrategy(appsapplyv1.StatefulSetUpdateStrategy().
						WithType(appsv1.RollingUpdateStatefulSetStrategyType).WithRollingUpdate(appsapplyv1.RollingUpdateStatefulSetStrategy().WithPartition(part))))
				}},
				{"spec.claims", func(a *appsapplyv1.StatefulSetApplyConfiguration) {
					a.WithSpec(specOf(a).WithVolumeClaimTemplates(coreapply.PersistentVolumeClaim("data", "default").WithLabels(map[string]string{"k": "v"})))
				}},
				{"status", func(a *appsapplyv1.StatefulSetApplyConfiguration) {
					a.WithStatus(appsapplyv1.StatefulSetStatus().WithReplicas(3).WithReadyReplicas(0).WithCurrentRevision("r1").WithUpdateRevision("r2").WithObservedGeneration(5).WithCollisionCount(0))
				}},
			}
			checkApply := func(label string, idx []int) {
				n++
				a := appsapplyv1.StatefulSet("web", "default")
				for _, i := range idx {
					steps[i].f(a)
				}
				h := sha256.Sum256([]byte(label))
				var k [16]byte
				copy(k[:], h[:16])
				rep.Count(k, len(idx) > 0, "")
				got, err := helper.FromBuiltinStatefulSetApplyConfiguration(a)
				if err != nil || got == nil {
					rep.Violation("C19", "conversion-error", fmt.Sprintf("apply configuration %s: conversion failed: %v", label, err), nil)
					return
				}
				if got.APIVersion == nil || *got.APIVersion != "apps.pingcap.com/v1" {
					rep.Violation("C19", "api-version", fmt.Sprintf("apply configuration %s: converted configuration typed %v", label, got.APIVersion), nil)
				}
				// a JSON null or an empty object says what an absent key says
				want := dropNulls(toTree(a))
				if m, ok := want.(map[string]interface{}); ok {
					m["apiVersion"] = "apps.pingcap.com/v1"
				}
				have := dropNulls(toTree(got))
				if d := jsonIncluded(want, have, "$") + jsonIncluded(have, want, "$"); d != "" {
					rep.Violation("C19", "apply-configuration-lossy", fmt.Sprintf("apply configuration %s: the converted configuration does not say the same: %s", label, d), nil)
				}
			}
			checkApply("bare", nil)
			all := []int{}
			for i := range steps {
				all = append(all, i)
				checkApply(steps[i].name, []int{i})
				for j := i + 1; j < len(steps); j++ {
					checkApply(steps[i].name+" & "+steps[j].name, []int{i, j})
					checkApply(steps[j].name+" & "+steps[i].name, []int{j, i})
				}
			}
			checkApply("everything", all)
		}
		rep.AddStates(n, n)
		rep.Validated = n
		return rep.Finish()
	})
}

// specOf returns the spec builder of an apply configuration, creating it when absent.
func specOf(a *appsapplyv1.StatefulSetApplyConfiguration) *appsapplyv1.StatefulSetSpecApplyConfiguration {
	if a.Spec == nil {
		return appsapplyv1.StatefulSetSpec()
	}
	return a.Spec
}

// dropNulls removes null members and members that are empty objects from a JSON tree (recursively): neither says
// anything about the object.
func dropNulls(t interface{}) interface{} {
	switch x := t.(type) {
	case map[string]interface{}:
		for k, v := range x {
			if v == nil {
				delete(x, k)
				continue
			}
			x[k] = dropNulls(v)
			if m, ok := x[k].(map[string]interface{}); ok && len(m) == 0 {
				delete(x, k)
			}
		}
	case []interface{}:
		for i := range x {
			x[i] = dropNulls(x[i])
		}
	}
	return t
}
