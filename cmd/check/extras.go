package main

import (
	"fmt"
	"time"

	v1 "k8s.io/api/core/v1"
	metav1 "k8s.io/apimachinery/pkg/apis/meta/v1"
	"k8s.io/apimachinery/pkg/types"

	"verif/internal/explore"
	"verif/internal/gen"
	"verif/internal/oracle"
	"verif/internal/world"
)

// c03ScaleInClause: from every steady state, the documented scale-in edit
// "add slot k and decrement replicas" followed by all interleavings of
// reconcile and kubelet progress deletes pod k and no other pod, on every path.
func c03ScaleInClause(rep *explore.Report) {
	w := world.New()
	type job struct {
		label string
		st    *world.State
		k     int
	}
	var jobs []job
	n := 4
	if explore.Tier() == "thorough" {
		n = 5
	}
	universe := make([]int32, n)
	for i := range universe {
		universe[i] = int32(i)
	}
	for _, h := range []history{histories[0], histories[2]} {
		for r := int32(1); r <= 3; r++ {
			for _, slots := range gen.Subsets(universe, 1) {
				des := desiredOf(r, slots)
				for _, pol := range []string{"OrderedReady", "Parallel"} {
					for _, strat := range []gen.Strategy{gen.RU(0), gen.RU(2), gen.OnDelete()} {
						sp := gen.Spec{Name: "web", Replicas: r, Slots: slots, Policy: pol, Strategy: strat, Limit: 10, Template: h.Tmpl}
						sc := gen.Scenario{Spec: sp, Revs: h.Revs, Cur: h.Cur, Cells: steady(n, des, h)}
						for k := range des {
							st := sc.Build(w)
							if err := world.Apply(st, fmt.Sprintf("scalein %d", k), 0); err != nil {
								panic(world.HarnessError{Msg: err.Error()})
							}
							jobs = append(jobs, job{fmt.Sprintf("%s then scale-in at %d", sc, k), st, k})
						}
					}
				}
			}
		}
	}
	var states, recs int64
	for _, j := range jobs {
		victim := gen.PodName("web", j.k)
		judge := func(v *oracle.View) []oracle.Violation {
			var out []oracle.Violation
			for _, c := range v.Rec.Calls {
				if c.Verb == "delete" && c.Resource == "pods" && c.Name != victim {
					out = append(out, oracle.Violation{Prop: "C03", Rule: "scale-in-removes-other-pod", Msg: fmt.Sprintf("scale-in at slot %d: %s deletes a pod other than %s", j.k, c.ID, victim)})
				}
			}
			return out
		}
		sub := explore.NewReport("C03", "model_checking")
		cfg := explore.SearchCfg{Prop: "C03", D: 0, Judge: judge, Deadline: time.Now().Add(5 * time.Minute),
			Goal: func(st *world.State) string {
				if _, still := st.API.Pods[victim]; still {
					return "pod " + victim + " still present"
				}
				return goalC02(st)
			}}
		g := explore.Search(sub, cfg, []explore.Seed{{Label: j.label, State: j.st}})
		g.Analyse()
		g.CheckConvergence(sub)
		sub.MergeInto(rep)
		states += int64(len(g.Nodes))
		recs += g.Reconciles
	}
	rep.AddStates(states, recs)
	rep.Extra["scale_in_clause_cases"] = len(jobs)
	rep.Extra["scale_in_clause_states"] = states
}

// c12CensusClause: at every quiescent fixed point reached from the C02 seeds
// the status counters are an exact census of the live pods.
func c12CensusClause(rep *explore.Report) {
	seeds := append(searchSeeds(c02Grids()), c09ExtraSeeds(false)...)
	{
		// a pod the set can neither claim nor replace holds the name of a desired ordinal (bare pod with other labels,
		// pod of another controller): the count must not include what could not be created
		w := world.New()
		for _, pol := range []string{"OrderedReady", "Parallel"} {
			for _, owner := range []string{"none", "otherkind"} {
				squat := gen.Cell{Present: true, Phase: v1.PodRunning, Ready: true, Rev: 0, Owner: owner, NoMatch: true}
				for _, cells := range [][]gen.Cell{{gen.ReadyAt(0), squat, gen.Absent}, {squat, gen.Absent, gen.Absent}, {gen.ReadyAt(0), gen.ReadyAt(0), squat}} {
					for r := int32(2); r <= 3; r++ {
						sc := gen.Scenario{Spec: gen.Spec{Name: "web", Replicas: r, Policy: pol, Strategy: gen.RU(0), Limit: 10, Template: 1}, Revs: []int{1}, Cur: 0, Cells: cells}
						seeds = append(seeds, explore.Seed{Label: sc.String(), State: sc.Build(w)})
					}
				}
			}
		}
	}
	D := 0
	if explore.Tier() == "thorough" {
		D = 1
	}
	cfg := explore.SearchCfg{Prop: "C12", D: D, Goal: goalC02, Excuse: excuseC02, Judge: monitorOf("C12"),
		Deviations: deviationsFor(devOpts{N: c02Grids()[0].N, MaxR: c02Grids()[0].MaxR, MaxSlots: 2, Edits: true, Regress: true}),
		Deadline:   explore.Deadline(60*time.Second, 12*time.Minute)}
	sub := explore.NewReport("C12", "model_checking")
	g := explore.Search(sub, cfg, seeds)
	g.Analyse()
	sub.MergeInto(rep)
	// rebuild each quiet bottom state to read its objects: replay the path from its seed
	w := world.New()
	var fixed int64
	for id, k := range g.Bottoms {
		n := g.Nodes[k]
		if g.BottomSize[id] != 1 || !(n.Quiet || n.Settled) {
			continue
		}
		p := g.PathTo(k)
		st, err := replayPath(w, p)
		if err != nil {
			panic(world.HarnessError{Msg: "census replay: " + err.Error()})
		}
		set := st.API.Sets["web"]
		if set == nil {
			continue
		}
		fixed++
		r, ready, cur, upd := oracle.Census(st, set)
		s := set.Status
		if s.Replicas != r || s.ReadyReplicas != ready || s.CurrentReplicas != cur || s.UpdatedReplicas != upd {
			k := k
			rep.Violation("C12", "census-at-fixed-point", fmt.Sprintf("quiescent state: status replicas/ready/current/updated = %d/%d/%d/%d, census of live pods = %d/%d/%d/%d (current=%s update=%s)",
				s.Replicas, s.ReadyReplicas, s.CurrentReplicas, s.UpdatedReplicas, r, ready, cur, upd, s.CurrentRevision, s.UpdateRevision), func() interface{} { return g.PathTo(k) })
		}
	}
	rep.AddStates(int64(len(g.Nodes)), g.Transitions)
	// status writes that hit a conflict and are retried from the (refreshed or stale) cache
	faultPhase(rep, "C12", []string{world.FConflict, world.FConflictFresh, world.FErr500, world.FTimeout},
		func(c *world.Call) bool {
			return (c.Resource == "statefulsets" && c.Sub == "status") || (c.Resource == "pods" && c.IsWrite() && c.Verb != "patch")
		}, time.Now().Add(3*time.Minute))
	rep.Extra["census_fixed_points_checked"] = fixed
	rep.Extra["census_search_states"] = len(g.Nodes)
}

// replayPath re-executes a path artefact on w and returns the final state.
func replayPath(w *world.World, p *explore.PathReplay) (*world.State, error) {
	w.Lag = p.Lag
	w.Load(p.Seed)
	for _, l := range p.Transitions {
		if plan, ok := explore.ParseReconcileLabel(l); ok {
			w.Reconcile(p.Key, plan)
			continue
		}
		if err := world.Apply(w.S, l, p.Lag); err != nil {
			return nil, err
		}
	}
	return w.S.Clone(), nil
}

// lagPhase runs the monitors of prop over the progress closure (plus D
// deviations) of the C02 seeds with a cache-lag bound: the reconciler then
// also sees snapshots in which its own last writes are not yet visible.
func lagPhase(rep *explore.Report, prop string, lag, D int, deadline time.Time) {
	seeds := append(searchSeeds(c02Grids()), c09ExtraSeeds(false)...)
	cfg := explore.SearchCfg{Prop: prop, D: D, Lag: lag, Judge: monitorOf(prop), Deadline: deadline,
		Deviations: deviationsFor(devOpts{N: c02Grids()[0].N, MaxR: c02Grids()[0].MaxR, MaxSlots: 2, Edits: true, Regress: true})}
	sub := explore.NewReport(prop, "model_checking")
	g := explore.Search(sub, cfg, seeds)
	sub.MergeInto(rep)
	if !g.Complete {
		rep.Exhaustive = false
		rep.Cap = fmt.Sprintf("lag phase (L=%d, D=%d) stopped by its deadline after %d states", lag, D, len(g.Nodes))
	}
	rep.AddStates(int64(len(g.Nodes)), g.Transitions)
	key := fmt.Sprintf("lag_phase_L%d_D%d", lag, D)
	rep.Extra[key] = map[string]interface{}{"states": len(g.Nodes), "reconciles": g.Reconciles, "complete": g.Complete}
}

func lagPhases(rep *explore.Report, prop string) {
	if explore.Tier() == "thorough" {
		lagPhase(rep, prop, 1, 1, time.Now().Add(12*time.Minute))
		lagPhase(rep, prop, 2, 0, time.Now().Add(4*time.Minute))
		return
	}
	lagPhase(rep, prop, 1, 0, explore.Deadline(40*time.Second, time.Minute))
	if prop == "C03" || prop == "C04" {
		// the "live up-to-date pod is never deleted" clause needs a cache two events behind; so does a create at an
		// ordinal whose finished pod the cache still shows while the API already holds its replacement
		lagPhase(rep, prop, 2, 0, explore.Deadline(60*time.Second, time.Minute))
	}
}

func init() {
	register("lag", "lag <prop> <L> <D>: run only the stale-cache phase of a snapshot property (diagnostic)", func(args []string) int {
		if len(args) != 3 {
			return 2
		}
		var l, d int
		fmt.Sscan(args[1], &l)
		fmt.Sscan(args[2], &d)
		rep := explore.NewReport(args[0], "model_checking")
		rep.Rule = "diagnostic lag phase"
		lagPhase(rep, args[0], l, d, time.Now().Add(15*time.Minute))
		return rep.Finish()
	})
}

// faultPhase runs the monitor of prop over the C09 seed closure with single
// faults of the given kinds on the calls selected by on.
func faultPhase(rep *explore.Report, prop string, kinds []string, on func(c *world.Call) bool, deadline time.Time) {
	seeds := c09Seeds(false)
	// the same populations with a status that lags behind the spec (generation not yet observed, counters zero)
	{
		w := world.New()
		for _, pol := range []string{"OrderedReady", "Parallel"} {
			for _, h := range []history{histories[0], histories[1]} {
				for _, cells := range [][]gen.Cell{{gen.ReadyAt(0), gen.ReadyAt(0), gen.Absent}, {gen.ReadyAt(0), gen.Absent, gen.Absent}, {gen.ReadyAt(0), gen.ReadyAt(len(h.Revs) - 1), gen.ReadyAt(0)}} {
					sc := gen.Scenario{Spec: gen.Spec{Name: "web", Replicas: 2, Policy: pol, Strategy: gen.RU(0), Limit: 10, Template: h.Tmpl}, Revs: h.Revs, Cur: h.Cur, Cells: cells, StaleStatus: true}
					seeds = append(seeds, explore.Seed{Label: sc.String(), State: sc.Build(w)})
				}
			}
			// a rollout that is complete but for one Failed / Succeeded / outdated pod
			dead := func(ph v1.PodPhase) gen.Cell { return gen.Cell{Present: true, Phase: ph, Rev: 0} }
			for _, cells := range [][]gen.Cell{{dead(v1.PodFailed), gen.ReadyAt(1), gen.Absent}, {gen.ReadyAt(1), dead(v1.PodSucceeded), gen.ReadyAt(1)}, {gen.ReadyAt(0), gen.ReadyAt(0), gen.ReadyAt(1)}, {dead(v1.PodFailed), gen.ReadyAt(1), gen.ReadyAt(1)}} {
				r := int32(2)
				if cells[2].Present {
					r = 3
				}
				sc := gen.Scenario{Spec: gen.Spec{Name: "web", Replicas: r, Policy: pol, Strategy: gen.RU(0), Limit: 10, Template: 2}, Revs: []int{1, 2}, Cur: 0, Cells: cells}
				seeds = append(seeds, explore.Seed{Label: sc.String(), State: sc.Build(w)})
			}
		}
	}
	cfg := explore.SearchCfg{Prop: prop, D: 1, FaultKinds: kinds, FaultOn: on, Judge: monitorOf(prop), Deadline: deadline}
	sub := explore.NewReport(prop, "model_checking")
	g := explore.Search(sub, cfg, seeds)
	sub.MergeInto(rep)
	rep.AddStates(int64(len(g.Nodes)), g.Transitions)
	rep.Extra["fault_phase"] = map[string]interface{}{"kinds": kinds, "states": len(g.Nodes), "reconciles": g.Reconciles, "complete": g.Complete}
}

// c14ClaimsPhase: Parallel sets with volume claim templates. Per ordinal the pod is absent, Ready or not Ready and the
// ordinal's claims are absent, present or being deleted (deletion timestamp, held by the pvc-protection finalizer, in
// cache and API alike): a claim in any of those states is no reason to skip another ordinal's creation or deletion.
func c14ClaimsPhase(rep *explore.Report) {
	const n = 4
	type pat struct{ pods, claims [n]int }
	var cases []explore.Case
	claimLists := [][]string{{"data"}}
	if explore.Tier() == "thorough" {
		claimLists = append(claimLists, []string{"data", "logs"})
	}
	universe := []int32{0, 1, 2, 3}
	for _, claims := range claimLists {
		for r := int32(2); r <= 3; r++ {
			for _, slots := range gen.Subsets(universe, 1) {
				sp := gen.Spec{Name: "web", Replicas: r, Slots: slots, Policy: "Parallel", Strategy: gen.RU(0), Limit: 10, Template: 1, Claims: claims}
				for code := 0; code < 81*81; code++ {
					var p pat
					x := code
					for i := 0; i < n; i++ {
						p.pods[i] = x % 3
						x /= 3
					}
					for i := 0; i < n; i++ {
						p.claims[i] = x % 3
						x /= 3
					}
					sp, p := sp, p
					label := fmt.Sprintf("%s pods(0 absent,1 Ready,2 not Ready)=%v claims(0 absent,1 present,2 being deleted)=%v", sp, p.pods, p.claims)
					cases = append(cases, explore.Case{Label: label, Build: func(w *world.World) *world.State {
						cells := make([]gen.Cell, n)
						for i := 0; i < n; i++ {
							switch p.pods[i] {
							case 1:
								cells[i] = gen.ReadyAt(0)
							case 2:
								cells[i] = gen.ReadyAt(0)
								cells[i].Ready = false
							}
						}
						st := gen.Scenario{Spec: sp, Revs: []int{1}, Cur: 0, Cells: cells}.Build(w)
						for i := 0; i < n; i++ {
							for _, t := range sp.Claims {
								name := fmt.Sprintf("%s-web-%d", t, i)
								k := world.ObjKey(world.NS, name)
								switch p.claims[i] {
								case 0:
									delete(st.API.PVCs, k)
								default:
									pvc := &v1.PersistentVolumeClaim{ObjectMeta: metav1.ObjectMeta{Name: name, Namespace: world.NS, UID: types.UID("uid-" + name), ResourceVersion: "1", Labels: map[string]string{"app": "web"}}}
									if p.claims[i] == 2 {
										ts := metav1.NewTime(time.Unix(1_600_000_100, 0).UTC())
										pvc.DeletionTimestamp = &ts
										pvc.Finalizers = []string{"kubernetes.io/pvc-protection"}
									}
									st.API.PVCs[k] = pvc
								}
							}
						}
						st.SyncCaches()
						return st
					}})
				}
			}
		}
	}
	var k int64
	explore.RunSnapshots(rep, explore.Deadline(60*time.Second, 10*time.Minute), func(emit func(explore.Case) bool) {
		for _, c := range cases {
			k++
			if !emit(c) {
				return
			}
		}
	}, monitorOf("C14"))
	rep.AddStates(k, k)
	rep.Extra["claims_phase_cases"] = k
}
