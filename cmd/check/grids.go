package main

import (
	"fmt"
	"sort"
	"verif/internal/oracle"

	v1 "k8s.io/api/core/v1"

	"verif/internal/explore"
	"verif/internal/gen"
	"verif/internal/world"
)

// history is a template history: stored revisions (template ids in revision
// order), the template the spec currently carries and which revision
// status.currentRevision names.
type history struct {
	Revs []int
	Tmpl int
	Cur  int
	Name string
}

var histories = []history{
	{[]int{1}, 1, 0, "one-revision"},
	{[]int{1, 2}, 2, 0, "rollout T1->T2"},
	{[]int{1, 2}, 2, 1, "rollout complete, old kept"},
	{[]int{1, 2, 3}, 3, 0, "T1->T2->T3 in flight"},
	{[]int{1, 2}, 1, 1, "rollback to T1 (not yet renumbered)"},
	{[]int{1}, 2, 0, "template edited, revision not yet created"},
	{[]int{1, 2}, 2, -1, "currentRevision unset"},
	{[]int{1, 2}, 2, -2, "currentRevision dangling"},
	{nil, 1, -1, "brand new set"},
}

type gridOpts struct {
	N          int      // ordinal universe 0..N-1
	MinR, MaxR int32    // replicas MinR..MaxR
	MaxSlots   int      // slot subsets up to this size
	Policies   []string // pod management policies
	Strategies []gen.Strategy
	Histories  []history
	DMin, DMax int  // populations differ from the steady state in DMin..DMax ordinals (DMax<0: full product)
	Rich       bool // rich cell alphabet
	Deleting   bool
	Paused     bool
	Limit      int32
	SelExpr    bool // selector written with matchExpressions
	// RawSlots: instead of well-formed slot sets, these raw annotation values (valid JSON of the wrong shape, numbers
	// that do not fit: the whole annotation is then unusable and denotes no slot)
	RawSlots []string
	// StatusAhead: status left by another writer (observedGeneration ahead of generation, counters zero)
	StatusAhead bool
	Far         []int // extra Ready pods at these multi-digit ordinals in every population
	// UnknownPhase: the basic alphabet also has a pod whose phase is Unknown (node unreachable) and not Ready: it exists,
	// so its ordinal is occupied (C04)
	UnknownPhase bool
}

func p32(i int32) *int32 { return &i }

func strategiesFor(n int) []gen.Strategy {
	return []gen.Strategy{gen.RU(0), gen.RU(1), gen.RU(2), gen.RU(int32(n)), gen.RU(int32(n + 3)), gen.OnDelete(), gen.OnDeleteWithBlock(1), gen.Typeless(2)}
}

// alphabet of pod cells for a history.
func alphabet(h history, rich, unknownPhase bool) []gen.Cell {
	cells := []gen.Cell{gen.Absent}
	revIdx := []int{}
	for i := range h.Revs {
		revIdx = append(revIdx, i)
	}
	add := func(c gen.Cell) { cells = append(cells, c) }
	for _, r := range revIdx {
		add(gen.Cell{Present: true, Phase: v1.PodRunning, Ready: true, Rev: r})
		add(gen.Cell{Present: true, Phase: v1.PodPending, Rev: r})
		add(gen.Cell{Present: true, Phase: v1.PodFailed, Rev: r})
		add(gen.Cell{Present: true, Phase: v1.PodRunning, Ready: true, Term: true, Rev: r})
		if rich || r == len(h.Revs)-1 {
			add(gen.Cell{Present: true, Phase: v1.PodRunning, Rev: r})
			add(gen.Cell{Present: true, Phase: v1.PodSucceeded, Rev: r})
		}
		if rich {
			add(gen.Cell{Present: true, Phase: v1.PodPending, Term: true, Rev: r})
			add(gen.Cell{Present: true, Phase: v1.PodFailed, Term: true, Rev: r})
		}
	}
	// a healthy pod whose identity label is missing: the controller must repair it with an update
	if len(h.Revs) > 0 {
		add(gen.Cell{Present: true, Phase: v1.PodRunning, Ready: true, Rev: len(h.Revs) - 1, NoIdent: true})
		// a healthy pod created by an earlier incarnation of the set (other governing service)
		add(gen.Cell{Present: true, Phase: v1.PodRunning, Ready: true, Rev: len(h.Revs) - 1, OldSvc: true})
		add(gen.Cell{Present: true, Phase: v1.PodFailed, Term: true, Rev: len(h.Revs) - 1})
		// an unowned, matching pod of another set whose name has this set's name as a prefix (<set>-<ord>-0)
		add(gen.Cell{Present: true, Phase: v1.PodRunning, Ready: true, Rev: len(h.Revs) - 1, Owner: "none", Nested: true})
		// Ready condition without the Running phase: not Running and Ready
		add(gen.Cell{Present: true, Phase: v1.PodPending, Ready: true, Rev: len(h.Revs) - 1})
		if rich {
			add(gen.Cell{Present: true, Phase: v1.PodUnknown, Ready: true, Rev: len(h.Revs) - 1})
		}
		if unknownPhase {
			add(gen.Cell{Present: true, Phase: v1.PodUnknown, Rev: len(h.Revs) - 1})
		}
	}
	// a pod whose label names no stored revision
	add(gen.Cell{Present: true, Phase: v1.PodRunning, Ready: true, Rev: -1})
	if rich {
		add(gen.Cell{Present: true, Phase: v1.PodPending, Rev: -1})
	}
	return cells
}

// steady returns the steady-state population for a spec and history: desired
// ordinals Ready at the current revision (or the newest if none), others absent.
func steady(n int, desired map[int]bool, h history) []gen.Cell {
	base := make([]gen.Cell, n)
	rev := h.Cur
	if rev < 0 {
		rev = len(h.Revs) - 1
	}
	for i := 0; i < n; i++ {
		if desired[i] && rev >= 0 {
			base[i] = gen.ReadyAt(rev)
		}
	}
	return base
}

func desiredOf(r int32, slots []int32) map[int]bool {
	m := map[int32]bool{}
	for _, s := range slots {
		m[s] = true
	}
	out := map[int]bool{}
	for i := int32(0); int32(len(out)) < r; i++ {
		if !m[i] {
			out[int(i)] = true
		}
	}
	return out
}

// snapshotGrid enumerates spec x history x population.
func snapshotGrid(o gridOpts, emit func(explore.Case) bool) {
	universe := make([]int32, o.N)
	for i := range universe {
		universe[i] = int32(i)
	}
	slotSets := gen.Subsets(universe, o.MaxSlots)
	var raws []*string
	for range slotSets {
		raws = append(raws, nil)
	}
	if len(o.RawSlots) > 0 {
		slotSets, raws = nil, nil
		for i := range o.RawSlots {
			var ref []int32
			for x := range oracle.ParseSlots(map[string]string{"delete-slots": o.RawSlots[i]}) {
				ref = append(ref, x)
			}
			sort.Slice(ref, func(a, b int) bool { return ref[a] < ref[b] })
			slotSets = append(slotSets, ref)
			raws = append(raws, &o.RawSlots[i])
		}
	}
	for _, h := range o.Histories {
		alpha := alphabet(h, o.Rich, o.UnknownPhase)
		for r := o.MinR; r <= o.MaxR; r++ {
			for si, slots := range slotSets {
				des := desiredOf(r, slots)
				base := steady(o.N, des, h)
				for _, pol := range o.Policies {
					for _, strat := range o.Strategies {
						sp := gen.Spec{Name: gen.SetName, Replicas: r, Slots: slots, Policy: pol, Strategy: strat, Limit: o.Limit, Template: h.Tmpl, Deleting: o.Deleting, Paused: o.Paused, SelExpr: o.SelExpr, SlotsRaw: raws[si]}
						stop := false
						for d := o.DMin; d <= o.DMax || (o.DMax < 0 && d == o.DMin); d++ {
							dd := d
							if o.DMax < 0 {
								dd = -1
							}
							gen.Populations(o.N, alpha, base, dd, func(cells []gen.Cell) {
								if stop {
									return
								}
								sc := gen.Scenario{Spec: sp, Revs: h.Revs, Cur: h.Cur, Cells: cells, Far: o.Far, StatusAhead: o.StatusAhead}
								if !emit(explore.Case{Label: sc.String(), Build: func(w *world.World) *world.State { return sc.Build(w) }}) {
									stop = true
								}
							})
						}
						if stop {
							return
						}
					}
				}
			}
		}
	}
}

func fmtOpts(o gridOpts) string {
	hs := []string{}
	for _, h := range o.Histories {
		hs = append(hs, h.Name)
	}
	return fmt.Sprintf("ordinals 0..%d, replicas %d..%d, every slot subset of the ordinals with <=%d members, policies %v, strategies %v, histories %v, pod populations differing from the steady state in %d..%d ordinals (max<0 = full product) over a %s cell alphabet (phase x ready x terminating x revision), deleting=%v paused=%v selectorAsExpressions=%v extraPodsAtOrdinals=%v rawAnnotationValues=%q",
		o.N-1, o.MinR, o.MaxR, o.MaxSlots, o.Policies, o.Strategies, hs, o.DMin, o.DMax, map[bool]string{true: "rich", false: "basic"}[o.Rich], o.Deleting, o.Paused, o.SelExpr, o.Far, o.RawSlots)
}
