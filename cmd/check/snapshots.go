package main

import (
	"fmt"
	"sync"
	"time"

	"verif/internal/explore"
	"verif/internal/gen"
	"verif/internal/oracle"
	"verif/internal/world"
)

var apiAssumptions = []string{
	"API-server model of DESIGN.md Appendix A (optimistic concurrency, status sub-resource, graceful pod deletion, truthful NotFound/AlreadyExists/Conflict) stands in for a real API server",
	"informer caches are filled by the harness; within one reconcile the caches do not change",
	"pods are hand-built to look like pods the controller creates; ControllerRevisions are harvested from the real controller",
	"results hold for the enumerated grid only (bounds in coverage.rule)",
}

var coreHistories = []history{histories[0], histories[1], histories[3], histories[4], histories[5]}

// tierGrids returns the sub-grids of the current tier in the order they are
// explored (cheapest / shallowest first, so a deadline cap cuts the deepest).
// unusableSlotValues: annotation values that are JSON but no list of int32 (a decoder filling what it can would see
// slots 0, 1, 2 in them), next to one usable value in an unusual encoding.
var unusableSlotValues = []string{`["2"]`, `[1.5]`, `[[1]]`, `[2, 4294967297]`, `[1,"x",2]`, `{"0":1}`, `[null,1]`, ` [ 1 ]`}

func tierGrids() []gridOpts {
	full := gridOpts{N: 4, MaxR: 3, MaxSlots: 2, Policies: []string{"OrderedReady", "Parallel"},
		Strategies: []gen.Strategy{gen.RU(0), gen.RU(1), gen.RU(2), gen.RU(4), gen.RU(7), gen.OnDelete(), gen.OnDeleteWithBlock(1), gen.Typeless(2)}, Histories: histories, DMin: 0, DMax: 1, Limit: 10}
	if explore.Tier() != "thorough" {
		deep := full
		deep.MaxSlots, deep.DMin, deep.DMax = 1, 2, 2
		deep.Strategies = []gen.Strategy{gen.RU(0), gen.RU(2), gen.OnDelete()}
		deep.Histories = []history{histories[1], histories[3], histories[5]}
		deep.MinR = 1
		// less common configurations on a reduced grid: selector written as expressions, and condemned pods at
		// multi-digit ordinals (9, 10, 11: numeric vs lexicographic order)
		odd := full
		odd.MaxSlots, odd.DMax = 1, 1
		odd.Strategies = []gen.Strategy{gen.RU(0), gen.RU(2), gen.OnDelete()}
		odd.Histories = []history{histories[0], histories[1], histories[3]}
		expr := odd
		expr.SelExpr = true
		far := odd
		far.Far = []int{9, 10, 11}
		raw := odd
		raw.RawSlots = unusableSlotValues
		raw.Histories = []history{histories[0], histories[1]}
		return []gridOpts{full, deep, expr, far, raw}
	}
	// thorough: six grids, shallow and wide first
	a := full
	a.N, a.MaxSlots, a.Rich = 5, 3, true
	a.Strategies = strategiesFor(5)
	a.DMin, a.DMax = 0, 1
	b := full
	b.Rich = true
	b.Histories = coreHistories
	b.DMin, b.DMax = 2, 2
	c := full
	c.N, c.MaxSlots, c.MinR = 5, 1, 1
	c.Strategies = []gen.Strategy{gen.RU(0), gen.RU(2), gen.OnDelete()}
	c.Histories = []history{histories[1], histories[3], histories[5]}
	c.DMin, c.DMax = 2, 2
	d := c
	d.N = 4
	d.DMin, d.DMax = 3, 3
	// less common configurations: selector written as expressions; condemned pods at multi-digit ordinals
	odd := full
	odd.MaxSlots, odd.DMin, odd.DMax = 1, 0, 2
	odd.Strategies = []gen.Strategy{gen.RU(0), gen.RU(2), gen.OnDelete()}
	odd.Histories = []history{histories[0], histories[1], histories[3], histories[5]}
	expr := odd
	expr.SelExpr = true
	far := odd
	far.Far = []int{9, 10, 11}
	raw := odd
	raw.RawSlots = unusableSlotValues
	return []gridOpts{a, b, c, d, expr, far, raw}
}

func monitorOf(props ...string) explore.JudgeFn {
	return func(v *oracle.View) []oracle.Violation {
		var out []oracle.Violation
		for _, p := range props {
			out = append(out, oracle.Monitors[p](v)...)
		}
		return out
	}
}

// snapshotCheck is the common body of the per-snapshot properties.
func snapshotCheck(prop string, mod func(*gridOpts), extraRule string) int {
	grids := tierGrids()
	if prop == "C04" {
		// the "never for a set that is being deleted" clause: the shallow grid again with the flag raised
		d := grids[0]
		d.Deleting = true
		grids = append(grids, d)
	}
	desc := ""
	for i := range grids {
		if mod != nil {
			mod(&grids[i])
		}
		desc += fmt.Sprintf("[grid %d] %s. ", i+1, fmtOpts(grids[i]))
	}
	rep := explore.NewReport(prop, "model_checking")
	rep.Rule = "snapshot enumeration (grids explored in order): " + desc + "One real reconcile per snapshot, judged against the snapshot it saw. " + extraRule +
		" The same monitor also runs over the progress closure of the C02 seeds explored with stale caches (lag bound L=1; thorough: L=1 with one deviation and L=2), where the reconciler sees snapshots lacking its own latest writes, and over a fault phase (every write on pods of the C09 seed closure hit by an InternalError, a lost response, a concurrent delete or an already-exists answer; faulted and recovery reconciles are judged). A case is non-trivial when the reconcile issued at least one API write or returned an error; distinct = distinct canonical state keys among those."
	rep.Assumptions = apiAssumptions
	var n int64
	explore.RunSnapshots(rep, explore.Deadline(100*time.Second, 25*time.Minute), func(emit func(explore.Case) bool) {
		for _, o := range grids {
			ok := true
			snapshotGrid(o, func(c explore.Case) bool { n++; ok = emit(c); return ok })
			if !ok {
				return
			}
		}
	}, monitorOf(prop))
	rep.AddStates(n, n)
	rep.Validated = n
	switch prop {
	case "C03":
		c03ScaleInClause(rep)
	case "C12":
		c12CensusClause(rep)
		c12EventDriven(rep)
	case "C14":
		c14ClaimsPhase(rep)
	}
	if prop == "C04" {
		// orphans to adopt, released pods, pods re-created behind the cache: the ownership grid of C10
		var n int64
		och := make(chan ownCase, 256)
		var owg sync.WaitGroup
		for i := 0; i < explore.Workers(); i++ {
			owg.Add(1)
			go func() {
				defer owg.Done()
				w := world.New()
				for c := range och {
					runOwnCase(rep, w, c, monitorOf("C04"), false)
				}
			}()
		}
		dl := explore.Deadline(60*time.Second, 5*time.Minute)
		ownGrid([]string{"same", "other-uid"}, []string{"Parallel", "OrderedReady"}, false, 2, false, func(c ownCase) bool {
			if c.Revs != defaultOwnRevs || time.Now().After(dl) {
				return c.Revs != defaultOwnRevs // skip the revision part of the grid
			}
			n++
			och <- c
			return true
		})
		close(och)
		owg.Wait()
		rep.AddStates(n, n)
		rep.Extra["ownership_grid_cases"] = n
	}
	lagPhases(rep, prop)
	if prop == "C03" || prop == "C04" || prop == "C05" || prop == "C14" {
		// pod writes that fail, lose their response, find the pod gone or already there
		faultPhase(rep, prop, []string{world.FErr500, world.FTimeout, world.FGone, world.FExists},
			func(c *world.Call) bool { return c.Resource == "pods" && c.IsWrite() }, time.Now().Add(3*time.Minute))
	}
	if prop == "C07" {
		// update deletes that fail or find the pod gone (a concurrent delete), and pod creates that fail
		faultPhase(rep, "C07", []string{world.FGone, world.FErr500, world.FTimeout},
			func(c *world.Call) bool { return c.Resource == "pods" && (c.Verb == "delete" || c.Verb == "create") }, time.Now().Add(3*time.Minute))
	}
	return rep.Finish()
}

func init() {
	register("c03", "only pods that must go are deleted (snapshot enumeration)", func([]string) int {
		return snapshotCheck("C03", nil, "Plus the scale-in clause on the search driver: from every steady state the edit 'add slot k, replicas-1' followed by all interleavings of reconcile and kubelet progress deletes pod k and no other pod on every path and ends without pod k. Oracle: every pod delete is class (a) outside desired, (b) Failed/Succeeded and replaced, or (c) RollingUpdate, >= partition, revision != update revision; a live desired up-to-date pod (API truth) is never deleted.")
	})
	register("c04", "creates only at vacant desired ordinals (snapshot enumeration)", func([]string) int {
		return snapshotCheck("C04", func(o *gridOpts) { o.UnknownPhase = o.DMax >= 0 && o.DMax <= 1 }, "The single-deviation grids also place a pod of phase Unknown (not Ready) at every ordinal. Oracle: every pod create is at a desired, non-slot ordinal that holds no claimed pod in the snapshot (or whose dead pod was just removed), never for a deleting set.")
	})
	register("c05", "OrderedReady discipline (snapshot enumeration)", func([]string) int {
		return snapshotCheck("C05", func(o *gridOpts) { o.Policies = []string{"OrderedReady", "", "Bogus"} }, "Oracle: <=1 ordinal touched per reconcile; create needs healthy predecessors; scale-in needs all desired Ready and removes the highest condemned pod; update-delete needs no condemned pod and all desired healthy.")
	})
	register("c07", "rolling update honours partition; OnDelete never restarts (snapshot enumeration)", func([]string) int {
		return snapshotCheck("C07", nil, "Oracle: an update-delete at i needs RollingUpdate, i >= partition and every higher desired pod present, updated, Running, Ready; <=1 per reconcile; new pods carry the revision their ordinal calls for and that revision's template; none under OnDelete.")
	})
	register("c12", "status tells the truth (snapshot enumeration)", func([]string) int {
		return snapshotCheck("C12", nil, "Plus the census clause on the search driver: at every fixed point (a reconcile that reports success and leaves the state as it is, so that nothing is scheduled to retry) reached from the C02 seeds and from seeds in which a pod the set cannot claim holds a desired name (thorough: after any single deviation) the counters equal a census of the live pods (total, ready, at current revision, at update revision); and a fault phase in which every status write is hit by a conflict (stale or refreshed cache), an InternalError or a lost response. An event-driven search (a reconcile runs only when the real handlers have put the key in the queue; watch events of pods and of the set delivered in any interleaving and arbitrarily late; two kubelet events) demands the census whenever the system is idle. Oracle on every status write: 0<=ready,current,updated<=replicas; observedGeneration = reconciled generation >= stored; currentRevision moves only to updateRevision and only when every claimed pod is updated and Ready.")
	})
	register("c14", "Parallel policy never waits (snapshot enumeration)", func([]string) int {
		return snapshotCheck("C14", func(o *gridOpts) { o.Policies = []string{"Parallel"} }, "Plus a claims phase: sets with volume claim templates, per ordinal the pod absent/Ready/not Ready and its claims absent/present/being deleted. Oracle: a reconcile in which no request failed (a returned error that the controller made up itself is no excuse; a refused adoption on a stale cache is) creates every vacant desired ordinal and deletes every live pod outside the desired set; <=1 update delete.")
	})
}
