package main

import (
	"fmt"
	"os"
	"strings"
	"sync"
	"time"

	v1 "k8s.io/api/core/v1"
	metav1 "k8s.io/apimachinery/pkg/apis/meta/v1"
	"k8s.io/apimachinery/pkg/types"

	"verif/internal/explore"
	"verif/internal/gen"
	"verif/internal/oracle"
	"verif/internal/world"
)

// C06: stable identity and storage.

type c06Case struct {
	Name       string
	Policy     string
	Claims     []string
	ClaimOwn   bool
	ExtraVols  []string
	ClaimNS    string
	TmplIdent  bool  // the pod template itself names a hostname and a subdomain (ordinary PodSpec fields)
	Presence   []int // per (ordinal, template): 0 neither, 1 API only (stale cache), 2 API and cache, 3 API and cache but provisioned by hand (none of the labels the controller would give it)
	Fault      world.FaultPlan
	LookupFail string
}

func (c c06Case) String() string {
	return fmt.Sprintf("set=%s %s claims=%v ownlabels=%v templateVolumes=%v claimTemplateNamespace=%q templateHostname=%v presence=%v fault=%v lookupFail=%q", c.Name, c.Policy, c.Claims, c.ClaimOwn, c.ExtraVols, c.ClaimNS, c.TmplIdent, c.Presence, c.Fault, c.LookupFail)
}

const c06Ordinals = 3

func (c c06Case) spec() gen.Spec {
	return gen.Spec{Name: c.Name, Replicas: c06Ordinals, Policy: c.Policy, Strategy: gen.RU(0), Limit: 10, Template: 1, Claims: c.Claims, ClaimOwn: c.ClaimOwn, ExtraVols: c.ExtraVols, ClaimNS: c.ClaimNS}
}

func (c c06Case) build(w *world.World) *world.State {
	sp := c.spec()
	set := sp.Build()
	if c.TmplIdent {
		set.Spec.Template.Spec.Hostname, set.Spec.Template.Spec.Subdomain = "db", "elsewhere"
	}
	rev := gen.Revision(w, sp, 1).DeepCopy()
	set.Status.CurrentRevision, set.Status.UpdateRevision, set.Status.ObservedGeneration = rev.Name, rev.Name, 1
	st := world.NewState()
	st.API.Revs[rev.Name] = rev
	st.API.Sets[set.Name] = set
	if c.Policy != "Parallel" {
		// ordered: pods 0..n-2 are there and Ready, the last one is to be created
		for i := 0; i < c06Ordinals-1; i++ {
			p := gen.BuildPod(set, i, gen.ReadyAt(0), rev.Name, 1, c.ExtraVols)
			st.API.Pods[p.Name] = p
		}
	}
	st.SyncCaches()
	i := 0
	for ord := 0; ord < c06Ordinals; ord++ {
		for _, t := range c.Claims {
			n := fmt.Sprintf("%s-%s-%d", t, c.Name, ord)
			pres := 0
			if i < len(c.Presence) {
				pres = c.Presence[i]
			}
			i++
			if pres == 0 {
				continue
			}
			pvc := &v1.PersistentVolumeClaim{ObjectMeta: metav1.ObjectMeta{Name: n, Namespace: world.NS, UID: types.UID("uid-" + n), ResourceVersion: "1", Labels: map[string]string{"app": "web"}}}
			if pres == 3 {
				pvc.Labels = map[string]string{"provisioned-by": "admin"}
			}
			st.API.PVCs[n] = pvc
			if pres >= 2 {
				st.Cache.PVCs[n] = pvc
			}
		}
	}
	return st
}

func c06Run(rep *explore.Report, w *world.World, c c06Case) *world.Rec {
	defer func() {
		if r := recover(); r != nil {
			if he, ok := r.(world.HarnessError); ok {
				fmt.Fprintf(os.Stderr, "HARNESS ERROR in %s: %s\n", c, he.Msg)
				os.Exit(2)
			}
			panic(r)
		}
	}()
	st := c.build(w)
	w.Lag = 0
	w.Load(st)
	w.PVCLookupFail = nil
	if c.LookupFail != "" {
		w.PVCLookupFail = map[string]bool{c.LookupFail: true}
	}
	key := world.NS + "/" + c.Name
	rec := w.Reconcile(key, c.Fault)
	w.PVCLookupFail = nil
	vs := oracle.C06(oracle.NewView(rec))
	if rec.Panic != nil {
		vs = append(vs, oracle.Violation{Prop: "C06", Rule: "panic", Msg: fmt.Sprint(rec.Panic)})
	}
	if c.LookupFail != "" {
		suffix := "-" + c.Name + "-"
		if i := strings.LastIndex(c.LookupFail, suffix); i >= 0 {
			pod := c.Name + "-" + c.LookupFail[i+len(suffix):]
			for _, x := range rec.Calls {
				if x.Verb == "create" && x.Resource == "pods" && x.Name == pod {
					vs = append(vs, oracle.Violation{Prop: "C06", Rule: "pod-created-despite-claim-failure", Msg: fmt.Sprintf("%s issued although the lookup of claim %s failed", x.ID, c.LookupFail)})
				}
			}
		}
	}
	rep.Count(st.Key(), len(rec.Writes()) > 0, explore.OutcomeSig(rec))
	rep.AddStates(1, 1)
	if rep.WantSample() {
		rep.Sample(map[string]interface{}{"case": c.String(), "calls": explore.CallStrings(rec)})
	}
	for _, v := range vs {
		v := v
		rep.Violation(v.Prop, v.Rule, c.String()+": "+v.Msg, func() interface{} {
			return explore.SnapshotReplay{Kind: "snapshot", Label: c.String(), Key: key, State: st, Faults: c.Fault, Calls: explore.CallStrings(rec), Viols: []string{v.String()}}
		})
	}
	return rec
}

// c06History: scale in at ordinal k, then out again; claims must be the same objects.
func c06History(rep *explore.Report, w *world.World, c c06Case, k int) {
	st := c.build(w)
	w.Lag = 0
	w.Load(st)
	key := world.NS + "/" + c.Name
	var trace []string
	settle := func(phase string) bool {
		for i := 0; i < 20; i++ {
			rec := w.Reconcile(key, nil)
			rep.AddStates(1, 1)
			trace = append(trace, phase+": "+explore.OutcomeSig(rec))
			for _, v := range oracle.C06(oracle.NewView(rec)) {
				v := v
				rep.Violation(v.Prop, v.Rule, c.String()+" (history, "+phase+"): "+v.Msg, func() interface{} {
					return map[string]interface{}{"kind": "c06-history", "case": c.String(), "slot": k, "trace": trace, "calls": explore.CallStrings(rec)}
				})
			}
			if rec.Panic != nil || rec.Err != nil {
				rep.Violation("C06", "history-reconcile-failed", fmt.Sprintf("%s (history, %s): reconcile failed: err=%v panic=%v", c, phase, rec.Err, rec.Panic), nil)
				return false
			}
			progressed := len(rec.Writes()) > 0
			for _, l := range world.EnvProgress(w.S) {
				world.Apply(w.S, l, 0)
				progressed = true
			}
			if !progressed {
				return true
			}
		}
		return true
	}
	if !settle("initial") {
		return
	}
	uids := map[string]types.UID{}
	for n, p := range w.S.API.PVCs {
		uids[n] = p.UID
	}
	if err := world.Apply(w.S, fmt.Sprintf("scalein %d", k), 0); err != nil {
		panic(world.HarnessError{Msg: err.Error()})
	}
	if !settle("scaled-in") {
		return
	}
	if _, still := w.S.API.Pods[gen.PodName(c.Name, k)]; still {
		rep.Violation("C06", "history-scale-in", fmt.Sprintf("%s: pod %d still present after scale-in at %d", c, k, k), nil)
	}
	world.Apply(w.S, fmt.Sprintf("slot- %d", k), 0)
	world.Apply(w.S, "replicas +1", 0)
	if !settle("scaled-out") {
		return
	}
	for n, u := range uids {
		p := w.S.API.PVCs[n]
		if p == nil || p.UID != u {
			rep.Violation("C06", "history-claim-replaced", fmt.Sprintf("%s: claim %s is not the same object after scale-in/out at %d", c, n, k), func() interface{} {
				return map[string]interface{}{"kind": "c06-history", "case": c.String(), "slot": k, "trace": trace}
			})
		}
	}
	if p := w.S.API.Pods[gen.PodName(c.Name, k)]; p == nil {
		rep.Violation("C06", "history-scale-out", fmt.Sprintf("%s: pod %d not recreated after scale-out", c, k), nil)
	} else {
		for _, t := range c.Claims {
			want := fmt.Sprintf("%s-%s-%d", t, c.Name, k)
			found := false
			for _, vol := range p.Spec.Volumes {
				if vol.Name == t && vol.PersistentVolumeClaim != nil && vol.PersistentVolumeClaim.ClaimName == want {
					found = true
				}
			}
			if !found {
				rep.Violation("C06", "history-volume-binding", fmt.Sprintf("%s: recreated pod %d does not bind claim %s", c, k, want), nil)
			}
		}
	}
	rep.Count(w.S.Key(), true, "history")
}

func init() {
	register("c06", "stable identity and storage; claims first; claims never removed", func([]string) int {
		thorough := explore.Tier() == "thorough"
		rep := explore.NewReport("C06", "model_checking")
		rep.Assumptions = apiAssumptions
		names := []string{"web", "web-1", "a", "x-0-y"}
		type cl struct {
			claims []string
			own    bool
			extra  []string
			ns     string
			ident  bool
		}
		lists := []cl{{nil, false, nil, "", false}, {[]string{"data"}, false, nil, "", false}, {[]string{"data", "logs"}, false, nil, "", false}, {[]string{"data"}, true, nil, "", false},
			{[]string{"shared"}, false, []string{"shared", "scratch"}, "", false}, {[]string{"data", "logs", "tmp"}, true, []string{"scratch"}, "", false},
			// claim templates that carry a metadata.namespace of their own (the CRD does not validate template metadata)
			{[]string{"data"}, false, nil, "staging", false}, {[]string{"data", "logs"}, false, nil, world.NS, false},
			// pod templates that name a hostname and a subdomain themselves
			{nil, false, nil, "", true}, {[]string{"data"}, false, nil, "", true}}
		deadline := explore.Deadline(100*time.Second, 15*time.Minute)
		ch := make(chan func(w *world.World), 256)
		var wg sync.WaitGroup
		for i := 0; i < explore.Workers(); i++ {
			wg.Add(1)
			go func() {
				defer wg.Done()
				w := world.New()
				for f := range ch {
					f(w)
				}
			}()
		}
		stop := false
		submit := func(f func(w *world.World)) {
			if stop {
				return
			}
			if time.Now().After(deadline) {
				stop = true
				rep.Exhaustive, rep.Cap = false, "deadline"
				return
			}
			ch <- f
		}
		for _, name := range names {
			for _, l := range lists {
				nClaims := len(l.claims) * c06Ordinals
				maxFull := 6
				if thorough {
					maxFull = 9
				}
				for _, pol := range []string{"Parallel", "OrderedReady"} {
					base := c06Case{Name: name, Policy: pol, Claims: l.claims, ClaimOwn: l.own, ExtraVols: l.extra, ClaimNS: l.ns, TmplIdent: l.ident}
					// presence patterns: full product when small, else all single and pair deviations from "neither" and from "both"
					var pats [][]int
					if nClaims <= maxFull {
						var recp func(cur []int)
						recp = func(cur []int) {
							if len(cur) == nClaims {
								pats = append(pats, append([]int{}, cur...))
								return
							}
							for v := 0; v < 4; v++ {
								recp(append(cur, v))
							}
						}
						recp(nil)
					} else {
						for _, b := range []int{0, 2} {
							bp := make([]int, nClaims)
							for i := range bp {
								bp[i] = b
							}
							pats = append(pats, bp)
							for i := 0; i < nClaims; i++ {
								for v := 0; v < 4; v++ {
									if v == b {
										continue
									}
									p := append([]int{}, bp...)
									p[i] = v
									pats = append(pats, p)
								}
							}
						}
					}
					for _, p := range pats {
						c := base
						c.Presence = p
						submit(func(w *world.World) { c06Run(rep, w, c) })
					}
					// faults on every claim create / lookup, from "no claim exists" and from "stale cache"
					for _, b := range []int{0, 1} {
						bp := make([]int, nClaims)
						for i := range bp {
							bp[i] = b
						}
						c := base
						c.Presence = bp
						submit(func(w *world.World) {
							dry := c06Run(rep, w, c)
							for _, call := range dry.Calls {
								if call.Verb != "create" || (call.Resource != "persistentvolumeclaims" && call.Resource != "pods") {
									continue
								}
								for _, kind := range []string{world.FErr500, world.FExists, world.FTimeout} {
									f := c
									f.Fault = world.FaultPlan{call.ID: kind}
									c06Run(rep, w, f)
								}
							}
							for ord := 0; ord < c06Ordinals; ord++ {
								for _, t := range c.Claims {
									f := c
									f.LookupFail = fmt.Sprintf("%s-%s-%d", t, c.Name, ord)
									c06Run(rep, w, f)
								}
							}
						})
					}
				}
				for k := 0; k < c06Ordinals; k++ {
					k := k
					c := c06Case{Name: name, Policy: "OrderedReady", Claims: l.claims, ClaimOwn: l.own, ExtraVols: l.extra, ClaimNS: l.ns, TmplIdent: l.ident}
					submit(func(w *world.World) { c06History(rep, w, c, k) })
					c2 := c
					c2.Policy = "Parallel"
					submit(func(w *world.World) { c06History(rep, w, c2, k) })
				}
			}
		}
		close(ch)
		wg.Wait()
		// the identity clauses (name, labels, revision label vs template) also over the general population grid,
		// where pods are (re)created below and above a partition with several revisions in flight
		if !stop {
			g := tierGrids()[0]
			var n int64
			explore.RunSnapshots(rep, explore.Deadline(60*time.Second, 8*time.Minute), func(emit func(explore.Case) bool) {
				snapshotGrid(g, func(c explore.Case) bool { n++; return emit(c) })
			}, monitorOf("C06"))
			rep.AddStates(n, n)
			rep.Extra["population_grid_cases"] = n
		}
		rep.Rule = "the real pod control on the API model: set names {web, web-1, a, x-0-y} x claim-template lists {none, 1, 2, 3 templates, own labels, a template named like a volume of the pod template, extra template volumes, templates carrying a metadata.namespace of their own} x policy {Parallel: 3 pods created in one reconcile; OrderedReady: the last of 3} x claim presence per (ordinal, template) in {absent, in the API only (stale cache), in API and cache, in API and cache but provisioned by hand without the labels the controller gives} (full product up to 6 claims, thorough 9; beyond that all single deviations from all-absent and all-present) x a single fault (InternalError, AlreadyExists, lost response) on every claim create and every pod create, and a lookup failure on every claim; plus scale-in at each ordinal followed by scale-out under both policies. Oracle on every created pod: name, namespace, hostname, subdomain, pod-name label, revision label naming a stored revision with the pod's template, controller owner reference, one volume per claim template bound to T-S-i, template volumes kept, every claim exists before the pod create, created claims carry the selector labels, a failed claim create/lookup prevents the pod create; no update/patch/delete on claims; claims keep their identity across scale-in/out. The same monitor also judges every pod create of the shallow population grid of C03 (pods re-created below / above a partition with 1-3 revisions in flight). Non-trivial = at least one write."
		rep.Validated = rep.States
		return rep.Finish()
	})
}
