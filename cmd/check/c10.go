package main

import (
	"fmt"
	"k8s.io/apimachinery/pkg/types"
	"os"
	"sort"
	"strings"
	"sync"
	"time"

	appsv1 "k8s.io/api/apps/v1"
	v1 "k8s.io/api/core/v1"
	metav1 "k8s.io/apimachinery/pkg/apis/meta/v1"

	"verif/internal/explore"
	"verif/internal/gen"
	"verif/internal/oracle"
	"verif/internal/world"
)

// Ownership grids shared by C10, C11 and C13.

type ownPod struct {
	Present bool
	Owner   string // "", none, otheruid, otherkind, noncontroller
	NoMatch bool
	Shape   string // "S-i", "S-x", "other-i", "S-i-j"
	Term    bool
	NoIdent bool // pod-name label missing
	OtherNS bool // lives in another namespace (same name pattern, matching labels)
	NewUID  bool // the API copy is a re-creation (other UID) that the cache has not seen yet
}

func (p ownPod) String() string {
	if !p.Present {
		return "-"
	}
	s := p.Shape
	if p.Owner != "" {
		s += "/" + p.Owner
	} else {
		s += "/own"
	}
	if p.NoMatch {
		s += "/nomatch"
	}
	if p.Term {
		s += "/term"
	}
	if p.NoIdent {
		s += "/noident"
	}
	if p.OtherNS {
		s += "/other-namespace"
	}
	if p.NewUID {
		s += "/recreated-behind-cache"
	}
	return s
}

type ownRev struct {
	Present bool
	Owner   string // "", none, otheruid, otherkind, builtin
	Labels  string // "selector", "marker", "both"
}

// migrationPending: a revision carrying the upgrade marker is still controlled by the built-in StatefulSet of the same
// name, i.e. the garbage collector has not yet orphaned the history the set is about to inherit.
func (c ownCase) migrationPending() bool {
	for _, r := range c.Revs {
		if r.Present && r.Owner == "builtin" && r.Labels != "selector" {
			return true
		}
	}
	return false
}

func (r ownRev) String() string {
	if !r.Present {
		return "-"
	}
	o := r.Owner
	if o == "" {
		o = "own"
	}
	return o + "/" + r.Labels
}

type ownCase struct {
	Policy    string
	Limit     int32
	SelBoth   bool // the selector has labels and an expression; a non-matching pod fails only the expression
	Settled   bool // status counters are an exact census already (the reconcile has no status to write)
	ScaleIn   bool // spec.replicas is 2: the pod at ordinal 2 is condemned (and a pinned pod is the one at ordinal 0)
	Pods      [3]ownPod
	Revs      [3]ownRev // slot 0: data T1 (the set's template), 1: T2, 2: T3
	EqualNums bool      // all revisions carry the same revision number
	Reversed  bool      // the revision recording the set's template has the lowest number (a rollback is pending)
	PinB      bool      // pod 2 carries the label of revision slot 1
	PinTerm   bool      // ... and is terminating
	AllAtB    bool      // every pod carries the label of revision slot 1 (none is at the set's template)
	API       string    // "same", "api-deleting", "cache-deleting", "other-uid", "absent", "api-paused"
	Paused    bool
}

func (c ownCase) String() string {
	return fmt.Sprintf("%s lim=%d selectorLabelsAndExpression=%v settledStatus=%v scaleIn=%v pods=%v revs=%v equalnums=%v reversed=%v pinB=%v pinTerminating=%v allAtB=%v api=%s paused=%v", c.Policy, c.Limit, c.SelBoth, c.Settled, c.ScaleIn, c.Pods, c.Revs, c.EqualNums, c.Reversed, c.PinB, c.PinTerm, c.AllAtB, c.API, c.Paused)
}

func podNameFor(shape string, i int) string {
	switch shape {
	case "S-i":
		return fmt.Sprintf("web-%d", i)
	case "S-x":
		return fmt.Sprintf("web-x%d", i)
	case "other-i":
		return fmt.Sprintf("other-%d", i)
	case "S-i-j":
		return fmt.Sprintf("web-%d-0", i)
	case "S-0i":
		// a numeral that is not the canonical form of its value: no ordinal i has the pod name S-0i
		return fmt.Sprintf("web-0%d", i)
	}
	panic(shape)
}

// hasForeign reports whether the case contains an object controlled by another owner.
func (c ownCase) hasForeign() bool {
	for _, p := range c.Pods {
		if p.Present && (p.Owner == "otheruid" || p.Owner == "otherkind" || p.Owner == "builtin") {
			return true
		}
	}
	for _, r := range c.Revs {
		if r.Present && (r.Owner == "otheruid" || r.Owner == "otherkind" || r.Owner == "builtin") {
			return true
		}
	}
	return false
}

// stripped returns the case without foreign-controlled objects.
func (c ownCase) stripped() ownCase {
	for i, p := range c.Pods {
		if p.Present && (p.Owner == "otheruid" || p.Owner == "otherkind" || p.Owner == "builtin") {
			c.Pods[i] = ownPod{}
		}
	}
	for i, r := range c.Revs {
		if r.Present && (r.Owner == "otheruid" || r.Owner == "otherkind" || r.Owner == "builtin") {
			c.Revs[i] = ownRev{}
		}
	}
	return c
}

func (c ownCase) Build(w *world.World) *world.State {
	replicas := int32(3)
	if c.ScaleIn {
		replicas = 2
	}
	sp := gen.Spec{Name: "web", Replicas: replicas, Policy: c.Policy, Strategy: gen.RU(0), Limit: c.Limit, Template: 1, Paused: c.Paused, SelBoth: c.SelBoth}
	set := sp.Build()
	st := world.NewState()
	var names [3]string
	for i := 0; i < 3; i++ {
		names[i] = gen.Revision(w, sp, i+1).Name
	}
	for i, rc := range c.Revs {
		if !rc.Present {
			continue
		}
		r := gen.Revision(w, sp, i+1).DeepCopy()
		r.Revision = int64(3 - i)
		if c.Reversed {
			r.Revision = int64(i + 1)
		}
		if c.EqualNums {
			r.Revision = 5
		}
		r.CreationTimestamp = metav1.NewTime(gen.T0.Add(time.Duration(3-i) * time.Second))
		r.OwnerReferences = gen.OwnerRef(set, rc.Owner)
		hash := r.Labels["controller.kubernetes.io/hash"]
		switch rc.Labels {
		case "selector":
			r.Labels = map[string]string{"app": "web", "controller.kubernetes.io/hash": hash}
		case "marker":
			r.Labels = map[string]string{"apps.pingcap.com/upgrade-to-asts": "web", "controller.kubernetes.io/hash": hash}
		case "both":
			r.Labels = map[string]string{"app": "web", "apps.pingcap.com/upgrade-to-asts": "web", "controller.kubernetes.io/hash": hash}
		}
		st.API.Revs[r.Name] = r
	}
	for i, pc := range c.Pods {
		if !pc.Present {
			continue
		}
		rev := names[0]
		tmpl := 1
		pinAt := 2
		if c.ScaleIn {
			pinAt = 0
		}
		if (c.PinB && i == pinAt) || c.AllAtB {
			rev, tmpl = names[1], 2
		}
		cell := gen.Cell{Present: true, Phase: v1.PodRunning, Ready: true, Term: pc.Term || (c.PinB && c.PinTerm && i == pinAt), Owner: pc.Owner, NoMatch: pc.NoMatch}
		p := gen.BuildPod(set, i, cell, rev, tmpl, nil)
		p.Name = podNameFor(pc.Shape, i)
		p.UID = types.UID("uid-pod-" + p.Name)
		p.Labels["statefulset.kubernetes.io/pod-name"] = p.Name
		if pc.NoIdent {
			delete(p.Labels, "statefulset.kubernetes.io/pod-name")
		}
		p.Spec.Hostname = p.Name
		if pc.OtherNS {
			p.Namespace = "other"
		}
		st.API.Pods[world.ObjKey(p.Namespace, p.Name)] = p
	}
	set.Status.CurrentRevision = names[0]
	set.Status.UpdateRevision = names[0]
	if c.AllAtB {
		// the pods' revision is the current one; the set's template (slot 0) is a rollback target
		set.Status.CurrentRevision = names[1]
	}
	set.Status.ObservedGeneration = 1
	if c.Settled {
		zero := int32(0)
		set.Status.CollisionCount = &zero
		for _, k := range world.SortedKeys(st.API.Pods) {
			p := st.API.Pods[k]
			if ref := oracle.ControllerOf(p); ref == nil || ref.UID != set.UID || p.Namespace != set.Namespace {
				continue
			}
			if _, ok := oracle.OrdinalOf("web", p.Name); !ok || p.Labels["app"] != "web" {
				continue
			}
			set.Status.Replicas++
			if oracle.IsReady(p) {
				set.Status.ReadyReplicas++
			}
			if p.DeletionTimestamp == nil {
				if oracle.PodRev(p) == set.Status.CurrentRevision {
					set.Status.CurrentReplicas++
				}
				if oracle.PodRev(p) == set.Status.UpdateRevision {
					set.Status.UpdatedReplicas++
				}
			}
		}
	}
	// a second set with an overlapping selector lives in the same namespace
	other := gen.Spec{Name: "other", Replicas: 1, Policy: "Parallel", Strategy: gen.RU(0), Limit: 10, Template: 1}.Build()
	st.API.Sets["other"] = other
	st.API.Sets["web"] = set
	st.SyncCaches()
	for i, pc := range c.Pods {
		if pc.Present && pc.NewUID {
			k := world.ObjKey(map[bool]string{true: "other", false: world.NS}[pc.OtherNS], podNameFor(pc.Shape, i))
			if p := st.API.Pods[k]; p != nil {
				n := p.DeepCopy()
				n.UID = types.UID(string(p.UID) + "-recreated")
				n.ResourceVersion = "2"
				st.API.Pods[k] = n
			}
		}
	}
	switch c.API {
	case "api-deleting":
		a := set.DeepCopy()
		a.DeletionTimestamp = &gen.T0
		a.Finalizers = []string{"example.com/hold"}
		a.ResourceVersion = "2"
		st.API.Sets["web"] = a
	case "cache-deleting":
		a := set.DeepCopy()
		a.DeletionTimestamp = &gen.T0
		a.Finalizers = []string{"example.com/hold"}
		st.API.Sets["web"] = a
		st.Cache.Sets["web"] = a
	case "api-paused":
		// the user has just paused the set; the cache has not caught up
		a := set.DeepCopy()
		if a.Annotations == nil {
			a.Annotations = map[string]string{}
		}
		a.Annotations["paused-reconcile"] = "true"
		a.ResourceVersion = "2"
		st.API.Sets["web"] = a
	case "other-uid":
		a := set.DeepCopy()
		a.UID = "uid-web-recreated"
		a.ResourceVersion = "2"
		st.API.Sets["web"] = a
	case "absent":
		delete(st.API.Sets, "web")
	}
	return st
}

func ownPodCells() []ownPod {
	var out []ownPod
	for _, owner := range []string{"", "none", "otheruid", "otherkind", "noncontroller"} {
		for _, nomatch := range []bool{false, true} {
			for _, shape := range []string{"S-i", "S-x", "other-i", "S-i-j", "S-0i"} {
				for _, term := range []bool{false, true} {
					out = append(out, ownPod{Present: true, Owner: owner, NoMatch: nomatch, Shape: shape, Term: term})
				}
				if shape == "S-i" && !nomatch {
					out = append(out, ownPod{Present: true, Owner: owner, Shape: shape, NoIdent: true})
					if owner == "" || owner == "none" {
						out = append(out, ownPod{Present: true, Owner: owner, Shape: shape, OtherNS: true})
						out = append(out, ownPod{Present: true, Owner: owner, Shape: shape, NewUID: true})
					}
				}
			}
		}
	}
	return out
}

func ownRevCells() []ownRev {
	out := []ownRev{{}}
	for _, owner := range []string{"", "none", "otheruid", "otherkind", "builtin"} {
		for _, l := range []string{"selector", "marker", "both"} {
			out = append(out, ownRev{Present: true, Owner: owner, Labels: l})
		}
	}
	return out
}

var defaultOwnPod = ownPod{Present: true, Shape: "S-i"}
var defaultOwnRevs = [3]ownRev{{Present: true, Labels: "selector"}, {}, {}}

// ownGrid enumerates the pod grid and the revision grid.
func ownGrid(apis []string, policies []string, paused bool, podDepth int, thorough bool, emit func(ownCase) bool) {
	cells := ownPodCells()
	for _, api := range apis {
		for _, pol := range policies {
			base := ownCase{Policy: pol, Limit: 10, Pods: [3]ownPod{defaultOwnPod, defaultOwnPod, defaultOwnPod}, Revs: defaultOwnRevs, API: api, Paused: paused}
			// (P) pods: up to podDepth non-default cells (also absent)
			alts := append([]ownPod{{}}, cells...)
			if !emit(base) {
				return
			}
			for i := 0; i < 3; i++ {
				for _, a := range alts {
					if a == defaultOwnPod {
						continue
					}
					c := base
					c.Pods[i] = a
					if !emit(c) {
						return
					}
					if a.Present && a.NoMatch {
						// the same pod under a selector with labels and an expression: it passes the labels and fails the
						// expression, which is no match all the same
						d := c
						d.SelBoth = true
						if !emit(d) {
							return
						}
					}
					if podDepth < 2 {
						continue
					}
					for j := i + 1; j < 3; j++ {
						for _, b := range alts {
							if b == defaultOwnPod {
								continue
							}
							d := c
							d.Pods[j] = b
							if !emit(d) {
								return
							}
						}
					}
				}
			}
			// (R) revisions: full product over three slots (the revision logic does not depend on the pod
			// management policy: first policy only)
			if pol != policies[0] {
				continue
			}
			rc := ownRevCells()
			limits := []int32{0, 1, 10}
			for _, lim := range limits {
				for _, pinMode := range []int{0, 1, 2, 3} {
					pin, pinTerm, allB := pinMode == 1 || pinMode == 2, pinMode == 2, pinMode == 3
					for _, num := range []int{0, 1, 2} {
						eq, rev := num == 1, num == 2
						if eq && !thorough && lim == 10 {
							continue
						}
						for _, a := range rc {
							for _, b := range rc {
								for _, c3 := range rc {
									c := base
									c.Limit, c.PinB, c.PinTerm, c.AllAtB, c.EqualNums, c.Reversed = lim, pin, pinTerm, allB, eq, rev
									c.Revs = [3]ownRev{a, b, c3}
									if !emit(c) {
										return
									}
									if pinMode == 1 && lim != 10 {
										// the same while a scale-in is under way: a condemned pod next to the pinned one
										c.ScaleIn = true
										if !emit(c) {
											return
										}
										c.ScaleIn = false
									}
									if lim != 10 && (pinMode == 0 || pinMode == 1) {
										// a settled set (the pass after a rollout completed): the status is an exact census
										// already, and whatever became unused in the meantime is still to be trimmed
										c.Settled = true
										if !emit(c) {
											return
										}
									}
								}
							}
						}
					}
				}
			}
		}
	}
}

func ownCheck(prop string, apis, policies []string, paused bool, differential bool, ruleText string) int {
	thorough := explore.Tier() == "thorough"
	rep := explore.NewReport(prop, "model_checking")
	depth := 1
	if thorough {
		depth = 2
	}
	if prop == "C10" {
		depth = 2
	}
	rep.Rule = fmt.Sprintf("ownership snapshot enumeration: set web (r=3, %v, RU p=0) plus a second set with the same selector; (P) pods at 3 ordinals, up to %d of them replaced by any cell of owner{this,none,other UID,other kind,non-controller ref} x labels{match, no match, match on matchLabels but excluded by a selector expression} x name{S-i,S-x,other-i,S-i-j,S-0i (leading zero)} x terminating, also without the pod-name label, in another namespace, and re-created behind the cache (API copy with another UID), or absent; (R) full product of three revision slots (data T1=the set's template, T2, T3) each absent or owner{this,none,other UID,other kind,built-in StatefulSet of the same name} x labels{selector,upgrade marker,both}, x revisionHistoryLimit{0,1,10} x pod-label pinning (none / one live pod (also with a scale-in under way: replicas 2, the pod at ordinal 2 condemned) / one terminating pod at another revision / all pods at another revision) x status (counters zero / an exact census already, i.e. nothing to write) x revision numbering (descending with age / all equal / reversed, i.e. a rollback pending); x API copy of the set %v; paused=%v. One real reconcile per snapshot. %s Non-trivial = at least one write or an error.", policies, depth, apis, paused, ruleText)
	rep.Assumptions = apiAssumptions
	deadline := explore.Deadline(100*time.Second, 15*time.Minute)
	judge := monitorOf(prop)
	ch := make(chan ownCase, 256)
	var wg sync.WaitGroup
	var n int64
	for i := 0; i < explore.Workers(); i++ {
		wg.Add(1)
		go func() {
			defer wg.Done()
			w := world.New()
			for c := range ch {
				runOwnCase(rep, w, c, judge, differential)
			}
		}()
	}
	ownGrid(apis, policies, paused, depth, thorough, func(c ownCase) bool {
		n++
		if n%64 == 0 && time.Now().After(deadline) {
			rep.Exhaustive = false
			rep.Cap = fmt.Sprintf("deadline after %d cases", n)
			return false
		}
		ch <- c
		return true
	})
	close(ch)
	wg.Wait()
	rep.AddStates(n, n)
	rep.Validated = n
	if prop == "C10" {
		// writes on pods and revisions that fail or conflict and are retried from the caches
		faultPhase(rep, "C10", []string{world.FConflict, world.FConflictFresh, world.FErr500, world.FGone},
			func(c *world.Call) bool {
				return c.IsWrite() && (c.Resource == "pods" || c.Resource == "controllerrevisions")
			}, time.Now().Add(3*time.Minute))
	}
	return rep.Finish()
}

func runOwnCase(rep *explore.Report, w *world.World, c ownCase, judge explore.JudgeFn, differential bool) {
	defer func() {
		if r := recover(); r != nil {
			if he, ok := r.(world.HarnessError); ok {
				fmt.Fprintf(os.Stderr, "HARNESS ERROR in case %s: %s\n", c, he.Msg)
				os.Exit(2)
			}
			panic(r)
		}
	}()
	st := c.Build(w)
	w.Lag = 0
	w.Load(st)
	rec := w.Reconcile(world.NS+"/web", nil)
	vs := judge(oracle.NewView(rec))
	if len(rec.CacheMutated) > 0 {
		vs = append(vs, oracle.Violation{Prop: rep.Prop, Rule: "cache-mutated", Msg: fmt.Sprintf("reconcile modified cached objects in place: %v", rec.CacheMutated)})
	}
	if differential && c.hasForeign() && !c.migrationPending() {
		w.Load(c.stripped().Build(w))
		rec2 := w.Reconcile(world.NS+"/web", nil)
		vs = append(vs, oracle.C10Differential(rec, rec2)...)
	}
	rep.Count(st.Key(), len(rec.Writes()) > 0 || rec.Err != nil, explore.OutcomeSig(rec))
	if rep.WantSample() {
		rep.Sample(map[string]interface{}{"case": c.String(), "calls": explore.CallStrings(rec), "err": fmt.Sprint(rec.Err)})
	}
	if len(vs) == 0 {
		return
	}
	var want []string
	for _, v := range vs {
		want = append(want, v.String())
	}
	sort.Strings(want)
	for _, v := range vs {
		v := v
		rep.Violation(v.Prop, v.Rule, v.Msg, func() interface{} {
			r := explore.SnapshotReplay{Kind: "snapshot", Label: c.String(), Key: world.NS + "/web", State: st, Calls: explore.CallStrings(rec), Viols: want, Stack: rec.Stack}
			if rec.Err != nil {
				r.Err = rec.Err.Error()
			}
			if rec.Panic != nil {
				r.Panic = fmt.Sprint(rec.Panic)
			}
			return r
		})
	}
}

var _ = strings.Join
var _ appsv1.ControllerRevision

func init() {
	register("c10", "ownership: only owned objects are touched; adoption needs fresh confirmation", func([]string) int {
		return ownCheck("C10", []string{"same", "api-deleting", "other-uid", "absent"}, []string{"Parallel", "OrderedReady"}, false, true,
			"Oracle: adoption patches only on orphan, matching, well-named, live pods after an uncached read confirming UID and no deletion; releases only for owned non-matching pods, never deleted; no write on anything controlled by another owner; status counts claimed pods only; the set is written only through status; differential: writes equal those of the same snapshot without foreign-owned objects (not compared while a revision carrying the upgrade marker is still controlled by the built-in StatefulSet of the same name: the migration of C18 is then under way and the controller may wait for the garbage collector). Plus a fault phase: from the C09 seed closure every write on pods/revisions is hit by a conflict (stale or refreshed cache), an InternalError or a concurrent delete, and the same monitor (incl. cached objects left unmodified) judges the faulted and the recovery reconciles.")
	})
	register("c13", "history truncation", func([]string) int {
		return ownCheck("C13", []string{"same"}, []string{"Parallel"}, false, false,
			"Oracle: every revision delete targets a revision controlled by the set that is not current, update or named by a pod label; no revision deleted twice; no more than (unused - limit) deleted, oldest first; after a successful reconcile at most limit unused remain.")
	})
}

func init() {
	register("c11", "deleted and paused sets are left alone (snapshot part)", func([]string) int {
		// part 1: ownership grid with the flags raised (orphans waiting for adoption, stale caches)
		// part 2: the general population grid with the flags raised (mid scale-in, mid rollout)
		thorough := explore.Tier() == "thorough"
		rep := explore.NewReport("C11", "model_checking")
		rep.Assumptions = apiAssumptions
		deadline := explore.Deadline(100*time.Second, 15*time.Minute)
		judge := monitorOf("C11")
		var n int64
		type job struct {
			own   *ownCase
			warm  *ownCase // reconciled first by the same controller instance (same set, live in the API)
			other *explore.Case
		}
		ch := make(chan job, 256)
		var wg sync.WaitGroup
		for i := 0; i < explore.Workers(); i++ {
			wg.Add(1)
			go func() {
				defer wg.Done()
				w := world.New()
				for j := range ch {
					if j.own != nil {
						if j.warm != nil {
							runOwnCase(rep, w, *j.warm, judge, false)
						}
						runOwnCase(rep, w, *j.own, judge, false)
					} else {
						explore.RunCase(rep, w, *j.other, judge)
					}
				}
			}()
		}
		ok := true
		emitOwn := func(c ownCase) bool {
			n++
			if n%64 == 0 && time.Now().After(deadline) {
				rep.Exhaustive, rep.Cap, ok = false, fmt.Sprintf("deadline after %d cases", n), false
				return false
			}
			cc := c
			ch <- job{own: &cc}
			return true
		}
		depth := 1
		if thorough {
			depth = 2
		}
		ownGrid([]string{"cache-deleting", "api-deleting"}, []string{"Parallel", "OrderedReady"}, false, depth, thorough, emitOwn)
		if ok {
			// several orphans waiting at once (the confirmation must hold for every one of them, not only the first)
			for _, api := range []string{"api-deleting", "cache-deleting", "other-uid", "absent", "api-paused"} {
				for _, pol := range []string{"Parallel", "OrderedReady"} {
					for mask := 0; mask < 8; mask++ {
						if mask&(mask-1) == 0 && !(api == "api-paused" && mask != 0) {
							continue // fewer than two orphans: covered by the grid above
						}
						for _, term := range []bool{false, true} {
							c := ownCase{Policy: pol, Limit: 10, Pods: [3]ownPod{defaultOwnPod, defaultOwnPod, defaultOwnPod}, Revs: defaultOwnRevs, API: api}
							for i := 0; i < 3; i++ {
								if mask&(1<<i) != 0 {
									c.Pods[i] = ownPod{Present: true, Owner: "none", Shape: "S-i", Term: term && i == 0}
								}
							}
							if !emitOwn(c) {
								break
							}
							// the same right after the same controller has adopted orphans for the set while it was alive:
							// what it learnt then must not stand in for the confirmation now
							if api != "absent" {
								warm := c
								warm.API = "same"
								n++
								cc := c
								ch <- job{own: &cc, warm: &warm}
							}
						}
					}
				}
			}
		}
		if ok {
			// paused, also in combination with a deletion timestamp
			ownGrid([]string{"same", "cache-deleting", "api-deleting"}, []string{"Parallel"}, true, depth, thorough, emitOwn)
		}
		desc := ""
		if ok {
			for _, flag := range []string{"deleting", "paused", "paused+deleting"} {
				for gi, o := range tierGrids() {
					if explore.Tier() != "thorough" && gi > 0 {
						o.Strategies = []gen.Strategy{gen.RU(0), gen.OnDelete()}
						o.Histories = []history{histories[1], histories[5]}
					}
					o.Deleting, o.Paused = strings.Contains(flag, "deleting"), strings.Contains(flag, "paused")
					if flag == "paused+deleting" && gi > 0 {
						continue
					}
					desc += fmt.Sprintf("[%s grid %d] %s. ", flag, gi+1, fmtOpts(o))
					snapshotGrid(o, func(c explore.Case) bool {
						n++
						if n%64 == 0 && time.Now().After(deadline) {
							rep.Exhaustive, rep.Cap, ok = false, fmt.Sprintf("deadline after %d cases", n), false
							return false
						}
						cc := c
						ch <- job{other: &cc}
						return true
					})
					if !ok {
						break
					}
				}
			}
		}
		close(ch)
		wg.Wait()
		if ok {
			c11PauseDuringReconcile(rep)
			c11Resume(rep, explore.Deadline(60*time.Second, 10*time.Minute))
		}
		c11ResumeWakeup(rep)
		rep.Rule = "snapshot enumeration with the deletion or pause flag raised: (1) the ownership grid of C10 (orphan pods and revisions awaiting adoption, foreign objects) with the set deleting in cache and API, deleting in the API only (stale cache), paused, and paused while deleting; (2) the population grids of C03 with the flag raised: " + desc +
			"Oracle: deleting (cached) => no write on pods or claims, no adoption/release patch on anything, no write on a revision the set does not control; API copy deleting with a stale cache => no adoption of pods or revisions; paused => no write at all. (3) resume clause on the search graph of C02's seeds with pause on / pause off as deviations (D=2): for every state s, every state t reached from pause(s) by progress transitions and u = unpause(t), the final states reachable from u are among those reachable from s, and exist; (4) the resume is noticed: the set update event that only removes (or only adds) the pause annotation, delivered to the real event handler, puts the set on the work queue, and the next worker step reconciles it."
		rep.AddStates(n, n)
		rep.Validated = n
		return rep.Finish()
	})
}
