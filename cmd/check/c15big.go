package main

import (
	"fmt"
	"math"
	"os"
	"os/exec"
	"strconv"
	"strings"

	"verif/internal/explore"
	"verif/internal/gen"
	"verif/internal/world"
)

// Replica counts at the top of the int32 range. The CRD admits them; the
// controller sizes a slice by the replica count, so such a reconcile cannot be
// run in the checker's own process (the sandbox has no memory limit). It runs
// in a child process under `ulimit -v` and a timeout; what the child does is
// read from its output and exit status.

type bigCase struct {
	Replicas int32
	Slots    string // raw annotation, "" = none
}

func init() {
	register("c15big", "c15big <replicas> <slots>: one reconcile of a set with a huge replica count (run by c15 in a memory-limited child)", func(args []string) int {
		if len(args) != 2 {
			return 2
		}
		r, _ := strconv.ParseInt(args[0], 10, 32)
		sp := gen.Spec{Name: "web", Replicas: int32(r), Policy: "Parallel", Strategy: gen.RU(0), Limit: 10, Template: 1}
		if args[1] != "" {
			sp.SlotsRaw = &args[1]
		}
		w := world.New()
		set := sp.Build()
		st := world.NewState()
		st.API.Sets[set.Name] = set
		st.SyncCaches()
		w.Load(st)
		rec := w.Reconcile(world.NS+"/web", nil)
		if rec.Panic != nil {
			fmt.Printf("OUTCOME=panic site=%s value=%v\n", explore.PanicSite(rec.Stack), rec.Panic)
			return 0
		}
		fmt.Printf("OUTCOME=returned err=%v writes=%d\n", rec.Err, len(rec.Writes()))
		return 0
	})
}

// c15Huge runs the huge-replica cases in children and reports what happened.
func c15Huge(rep *explore.Report) {
	self, err := os.Executable()
	if err != nil {
		fmt.Fprintln(os.Stderr, "cannot find own executable:", err)
		os.Exit(2)
	}
	cases := []bigCase{{math.MaxInt32, "[0]"}, {math.MaxInt32, ""}, {math.MaxInt32 - 1, "[0,1]"}}
	for _, c := range cases {
		label := fmt.Sprintf("replicas=%d delete-slots=%q, empty cluster, one reconcile in a child process limited to 4 GiB of address space and 120 s", c.Replicas, c.Slots)
		// the limit makes the 16 GiB slice fail at once instead of being filled pod by pod
		cmd := exec.Command("bash", "-c", `ulimit -v 4194304; exec timeout 120 "$0" c15big "$1" "$2"`, self, fmt.Sprint(c.Replicas), c.Slots)
		cmd.Env = append(os.Environ(), "GOGC=50")
		out, err := cmd.CombinedOutput()
		rep.AddStates(1, 1)
		rep.Count(sha16(label), true, "huge replica count")
		s := string(out)
		switch {
		case strings.Contains(s, "OUTCOME=returned"):
			// fine: the reconcile came back
		case strings.Contains(s, "OUTCOME=panic"):
			line := s[strings.Index(s, "OUTCOME=panic"):]
			if i := strings.IndexByte(line, '\n'); i >= 0 {
				line = line[:i]
			}
			rep.Violation("C15", "panic@huge-replica-count", label+": "+line, func() interface{} {
				return map[string]interface{}{"kind": "c15-huge", "replicas": c.Replicas, "slots": c.Slots, "replay": "bin/check c15big <replicas> <slots> (under ulimit -v)"}
			})
		default:
			why := "killed"
			switch {
			case strings.Contains(s, "out of memory") || strings.Contains(s, "cannot allocate memory"):
				why = "the runtime ran out of memory (fatal, not recoverable)"
			case err != nil && strings.Contains(err.Error(), "124"):
				why = "still running after 120 s"
			}
			rep.Violation("C15", "process-dies@huge-replica-count", label+": the process did not survive the reconcile: "+why, func() interface{} {
				tail := s
				if len(tail) > 600 {
					tail = tail[:600]
				}
				return map[string]interface{}{"kind": "c15-huge", "replicas": c.Replicas, "slots": c.Slots, "child_output_head": tail, "replay": "bin/check c15big <replicas> <slots> (under ulimit -v)"}
			})
		}
	}
}
