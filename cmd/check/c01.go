package main

import (
	"crypto/sha256"
	"fmt"
	"math"
	"sort"
	"strings"
	"sync"

	asv1 "github.com/pingcap/advanced-statefulset/client/apis/apps/v1"
	"github.com/pingcap/advanced-statefulset/client/apis/apps/v1/helper"
	v1 "k8s.io/api/core/v1"
	metav1 "k8s.io/apimachinery/pkg/apis/meta/v1"
	"k8s.io/apimachinery/pkg/util/sets"

	"verif/internal/explore"
	"verif/internal/gen"
	"verif/internal/oracle"
	"verif/internal/world"
)

// C01: desired ordinals. Bounded-exhaustive enumeration of (replicas,
// annotation) against the reference model, for every helper and for the real
// controller on an empty cluster.

type c01Input struct {
	R      int32
	Ann    *string // nil: annotation absent
	NilMap bool    // annotations map nil
	Label  string
}

func slotsKey(m map[int32]bool) []int32 {
	var l []int32
	for k := range m {
		l = append(l, k)
	}
	sort.Slice(l, func(i, j int) bool { return l[i] < l[j] })
	return l
}

func refSet(l []int32) map[int32]bool {
	m := map[int32]bool{}
	for _, x := range l {
		m[x] = true
	}
	return m
}

func eqInt32(a sets.Int32, b []int32) bool {
	if a.Len() != len(b) {
		return false
	}
	for _, x := range b {
		if !a.Has(x) {
			return false
		}
	}
	return true
}

// encodings of a slot list as annotation values that denote the same set
func encodings(slots []int32) []string {
	canon := gen.SlotsAnn(slots)
	out := []string{canon}
	if len(slots) >= 2 {
		rev := append([]int32{}, slots...)
		for i, j := 0, len(rev)-1; i < j; i, j = i+1, j-1 {
			rev[i], rev[j] = rev[j], rev[i]
		}
		out = append(out, gen.SlotsAnn(rev))
	}
	if len(slots) >= 1 {
		out = append(out, gen.SlotsAnn(append(append([]int32{}, slots...), slots[0]))) // duplicate
		out = append(out, " "+strings.ReplaceAll(canon, ",", " ,\n ")+" ")             // whitespace
	}
	return out
}

var malformed = []string{"", "[", "[1,", `[1,"a"]`, "[1.5]", "{}", "[null]", "1", "[3000000000]", "[-3000000000]", `"[1]"`, "null", "[]", "[1,2]x", "true", "[1e0]", "[01]", "[ 2 ]", `["2"]`, `[[1]]`, `[2, 4294967297]`, `[1,"x",2]`, `{"0":1}`, `[null,1]`}

func c01Inputs(thorough bool, f func(c01Input)) {
	maxR, maxSlots := int32(6), 4
	if thorough {
		maxR, maxSlots = 8, 5
	}
	universe := []int32{-2, -1, 0, 1, 2, 3, 4, 5, 6, 7, 8}
	extremes := [][]int32{{math.MinInt32}, {math.MaxInt32}, {math.MinInt32, math.MaxInt32}, {math.MaxInt32 - 1, math.MaxInt32}, {math.MinInt32, 0}, {0, math.MaxInt32}, {-1, math.MaxInt32}, {math.MinInt32, -1, 1}}
	for r := int32(0); r <= maxR; r++ {
		f(c01Input{R: r, Label: "absent"})
		f(c01Input{R: r, NilMap: true, Label: "nil-map"})
		for _, m := range malformed {
			m := m
			f(c01Input{R: r, Ann: &m, Label: "raw"})
		}
		for _, sl := range append(gen.Subsets(universe, maxSlots), extremes...) {
			for _, e := range encodings(sl) {
				e := e
				f(c01Input{R: r, Ann: &e, Label: "list"})
			}
		}
	}
}

func (in c01Input) object() *asv1.StatefulSet {
	s := &asv1.StatefulSet{ObjectMeta: metav1.ObjectMeta{Name: "web"}}
	if !in.NilMap {
		s.Annotations = map[string]string{"other": "x"}
	}
	if in.Ann != nil {
		if s.Annotations == nil {
			s.Annotations = map[string]string{}
		}
		s.Annotations["delete-slots"] = *in.Ann
	}
	return s
}

func (in c01Input) String() string {
	a := "<absent>"
	if in.Ann != nil {
		a = fmt.Sprintf("%q", *in.Ann)
	}
	return fmt.Sprintf("r=%d delete-slots=%s", in.R, a)
}

func c01Helpers(rep *explore.Report, in c01Input) {
	obj := in.object()
	before := obj.DeepCopy()
	ref := oracle.ParseSlots(obj.Annotations)
	want := oracle.Desired(in.R, ref)
	bad := func(rule, f string, a ...interface{}) {
		msg := in.String() + ": " + fmt.Sprintf(f, a...)
		rep.Violation("C01", rule, msg, func() interface{} {
			return map[string]interface{}{"kind": "c01-helper", "replicas": in.R, "annotation": in.Ann, "nilmap": in.NilMap}
		})
	}
	got := helper.GetDeleteSlots(obj)
	if !eqInt32(got, slotsKey(ref)) {
		bad("get-delete-slots", "GetDeleteSlots=%v, annotation lists %v", got.List(), slotsKey(ref))
	}
	// reference facts
	wantMax, wantMin := int32(-1), int32(math.MaxInt32)
	for _, x := range want {
		if x > wantMax {
			wantMax = x
		}
		if x < wantMin {
			wantMin = x
		}
	}
	wantRange := wantMax + 1
	var wantEff []int32
	for _, s := range slotsKey(ref) {
		if s >= 0 && s < wantRange {
			wantEff = append(wantEff, s)
		}
	}
	if int32(len(want)) != in.R {
		panic("reference model broken")
	}
	in1 := sets.NewInt32(slotsKey(ref)...)
	rng, eff := helper.GetMaxReplicaCountAndDeleteSlots(in.R, in1)
	if !eqInt32(in1, slotsKey(ref)) {
		bad("input-mutated", "GetMaxReplicaCountAndDeleteSlots modified the caller's slot set: %v", in1.List())
	}
	if rng != wantRange {
		bad("effective-range", "effective range=%d, desired ordinals %v give %d", rng, want, wantRange)
	}
	if !eqInt32(eff, wantEff) {
		bad("effective-slots", "effective slots=%v, want slots within [0,%d) = %v", eff.List(), wantRange, wantEff)
	}
	if o := helper.GetPodOrdinals(in.R, obj); !eqInt32(o, want) {
		bad("pod-ordinals", "GetPodOrdinals=%v, desired %v", o.List(), want)
	}
	in2 := sets.NewInt32(slotsKey(ref)...)
	if o := helper.GetPodOrdinalsFromReplicasAndDeleteSlots(in.R, in2); !eqInt32(o, want) {
		bad("pod-ordinals", "GetPodOrdinalsFromReplicasAndDeleteSlots=%v, desired %v", o.List(), want)
	}
	if !eqInt32(in2, slotsKey(ref)) {
		bad("input-mutated", "GetPodOrdinalsFromReplicasAndDeleteSlots modified the caller's slot set")
	}
	if m := helper.GetMaxPodOrdinal(in.R, obj); m != wantMax {
		bad("max-ordinal", "GetMaxPodOrdinal=%d, want %d", m, wantMax)
	}
	if m := helper.GetMinPodOrdinal(in.R, obj); m != wantMin {
		bad("min-ordinal", "GetMinPodOrdinal=%d, want %d", m, wantMin)
	}
	if fmt.Sprint(obj) != fmt.Sprint(before) {
		bad("input-mutated", "a read-only helper modified the object")
	}
	h := sha256.Sum256([]byte(in.String()))
	var k [16]byte
	copy(k[:], h[:16])
	rep.Count(k, len(ref) > 0, fmt.Sprintf("helpers: |desired|=%d shifted=%v", len(want), wantRange != in.R))
}

// c01Controller runs the real controller on an empty cluster.
func c01Controller(rep *explore.Report, w *world.World, in c01Input, policy string) {
	sp := gen.Spec{Name: "web", Replicas: in.R, SlotsRaw: in.Ann, Policy: policy, Strategy: gen.RU(0), Limit: 10, Template: 1}
	set := sp.Build()
	if in.NilMap {
		set.Annotations = nil
	}
	ref := oracle.ParseSlots(set.Annotations)
	want := oracle.Desired(in.R, ref)
	st := world.NewState()
	st.API.Sets[set.Name] = set
	st.SyncCaches()
	w.Lag = 0
	w.Load(st)
	var created []int
	var log []string
	bad := func(rule, f string, a ...interface{}) {
		msg := in.String() + " " + policy + ": " + fmt.Sprintf(f, a...)
		rep.Violation("C01", rule, msg, func() interface{} {
			return map[string]interface{}{"kind": "c01-controller", "replicas": in.R, "annotation": in.Ann, "policy": policy, "calls": log}
		})
	}
	steps := 0
	for {
		steps++
		rec := w.Reconcile(world.NS+"/web", nil)
		for _, c := range rec.Calls {
			if c.IsWrite() {
				log = append(log, c.String())
			}
		}
		if rec.Panic != nil {
			bad("controller-panic", "reconcile panicked: %v", rec.Panic)
			return
		}
		if rec.Err != nil {
			bad("controller-error", "reconcile on an empty cluster failed: %v", rec.Err)
			return
		}
		n := 0
		for _, c := range rec.Calls {
			if c.Resource == "pods" && c.IsWrite() {
				n++
				ord, ok := oracle.OrdinalOf("web", c.Name)
				if c.Verb != "create" || !ok {
					bad("controller-unexpected-call", "unexpected call %s", c.ID)
					return
				}
				created = append(created, ord)
			}
		}
		if policy == "Parallel" || n == 0 || steps > 40 {
			break
		}
		// kubelet: every pending pod becomes Running and Ready
		for _, name := range world.SortedKeys(w.S.API.Pods) {
			p := w.S.API.Pods[name].DeepCopy()
			p.Status.Phase = v1.PodRunning
			p.Status.Conditions = []v1.PodCondition{{Type: v1.PodReady, Status: v1.ConditionTrue}}
			w.S.PutPod(p, 0)
		}
	}
	sorted := append([]int{}, created...)
	sort.Ints(sorted)
	wantInts := []int{}
	for _, x := range want {
		wantInts = append(wantInts, int(x))
	}
	if fmt.Sprint(sorted) != fmt.Sprint(wantInts) {
		bad("controller-creates", "controller created pods at %v, desired ordinals are %v", sorted, wantInts)
	} else if policy != "Parallel" && fmt.Sprint(created) != fmt.Sprint(wantInts) {
		bad("controller-create-order", "OrderedReady created %v, want ascending %v", created, wantInts)
	}
	h := sha256.Sum256([]byte(in.String() + policy))
	var k [16]byte
	copy(k[:], h[:16])
	rep.Count(k, len(want) > 0, fmt.Sprintf("controller %s: %d creates", policy, len(created)))
	rep.AddStates(int64(steps), int64(steps))
	if rep.WantSample() {
		rep.Sample(map[string]interface{}{"input": in.String(), "policy": policy, "created": created, "desired": wantInts})
	}
}

// c01Journey: the set runs with slots s1 to quiescence, then the annotation is
// edited to s2 (nil = removed) and the set runs to quiescence again: the pods
// must be exactly desired(r, s2).
func c01Journey(rep *explore.Report, w *world.World, r int32, s1, s2 []int32, policy string, editTemplate bool, r2 int32) {
	sp := gen.Spec{Name: "web", Replicas: r, Slots: s1, Policy: policy, Strategy: gen.RU(0), Limit: 10, Template: 1}
	set := sp.Build()
	st := world.NewState()
	st.API.Sets[set.Name] = set
	st.SyncCaches()
	w.Lag = 0
	w.Load(st)
	label := fmt.Sprintf("r=%d slots %v -> r=%d slots %v %s templateEdit=%v", r, s1, r2, s2, policy, editTemplate)
	var trace []string
	settle := func(phase string) bool {
		for i := 0; i < 60; i++ {
			rec := w.Reconcile(world.NS+"/web", nil)
			rep.AddStates(1, 1)
			trace = append(trace, phase+": "+explore.OutcomeSig(rec))
			if rec.Panic != nil || rec.Err != nil {
				rep.Violation("C01", "controller-error", fmt.Sprintf("%s (%s): reconcile failed: err=%v panic=%v", label, phase, rec.Err, rec.Panic), nil)
				return false
			}
			// every create on the way is at a desired ordinal too, not only the pods at the end
			if cs := rec.Before.Cache.Sets["web"]; cs != nil && cs.Spec.Replicas != nil {
				des := map[int]bool{}
				for _, d := range oracle.Desired(*cs.Spec.Replicas, oracle.ParseSlots(cs.Annotations)) {
					des[int(d)] = true
				}
				for _, c := range rec.Calls {
					if c.Verb != "create" || c.Resource != "pods" {
						continue
					}
					if o, ok := oracle.OrdinalOf("web", c.Name); !ok || !des[o] {
						rep.Violation("C01", "controller-creates-outside-desired", fmt.Sprintf("%s (%s): %s although the desired ordinals are %v", label, phase, c.ID, oracle.Desired(*cs.Spec.Replicas, oracle.ParseSlots(cs.Annotations))), func() interface{} {
							return map[string]interface{}{"kind": "c01-journey", "case": label, "trace": trace}
						})
						return false
					}
				}
			}
			progressed := len(rec.Writes()) > 0
			for _, l := range world.EnvProgress(w.S) {
				world.Apply(w.S, l, 0)
				progressed = true
			}
			if !progressed {
				return true
			}
		}
		rep.Violation("C01", "controller-does-not-settle", label+": still acting after 60 rounds", nil)
		return false
	}
	if !settle("with " + fmt.Sprint(s1)) {
		return
	}
	if r2 == r && fmt.Sprint(s1) == fmt.Sprint(s2) && !editTemplate {
		// no edit: instead every desired pod finishes (Failed, then Succeeded) in turn and is replaced at its own ordinal
		ref := map[int32]bool{}
		for _, x := range s1 {
			ref[x] = true
		}
		for _, how := range []string{"fail", "succeed"} {
			for _, d := range oracle.Desired(r, ref) {
				name := gen.PodName("web", int(d))
				if w.S.API.Pods[name] == nil {
					continue
				}
				if err := world.Apply(w.S, how+" "+name, 0); err != nil {
					continue
				}
				if !settle(fmt.Sprintf("after %s %s", how, name)) {
					return
				}
			}
		}
	}
	cur := w.S.API.Sets["web"].DeepCopy()
	if len(s2) == 0 {
		delete(cur.Annotations, "delete-slots")
		if len(cur.Annotations) == 0 {
			cur.Annotations = nil
		}
	} else {
		if cur.Annotations == nil {
			cur.Annotations = map[string]string{}
		}
		cur.Annotations["delete-slots"] = gen.SlotsAnn(s2)
	}
	if editTemplate {
		cur.Spec.Template.Spec.Containers[0].Image = gen.Image(2)
		cur.Generation++
	}
	if r2 != r {
		x := r2
		cur.Spec.Replicas = &x
		cur.Generation++
	}
	cur.ResourceVersion += "1"
	before := w.S.API.Sets["web"]
	w.S.PutSet(cur, 0)
	// the edit reaches the controller as an update event of its set informer; an annotation-only edit does not move
	// metadata.generation, and the controller must wake up for it all the same
	if len(w.SetHandlers) == 1 && (fmt.Sprint(s1) != fmt.Sprint(s2) || r2 != r) {
		q := &recQueue{}
		w.Ctrl.VerifSetQueue(q)
		w.FillCaches()
		w.SetHandlers[0].OnUpdate(before, cur)
		if !keysOf(q.log)[world.NS+"/web"] {
			rep.Violation("C01", "slot-edit-not-noticed", fmt.Sprintf("%s: the update event carrying the new delete-slots value (generation %d -> %d) does not enqueue the set, so the new desired ordinals are never acted on", label, before.Generation, cur.Generation), func() interface{} {
				return map[string]interface{}{"kind": "c01-journey", "case": label, "queue_log": q.log}
			})
			return
		}
	}
	if !settle("with " + fmt.Sprint(s2)) {
		return
	}
	want := []int{}
	ref := map[int32]bool{}
	for _, x := range s2 {
		ref[x] = true
	}
	for _, d := range oracle.Desired(r2, ref) {
		want = append(want, int(d))
	}
	var got []int
	for _, n := range world.SortedKeys(w.S.API.Pods) {
		if o, ok := oracle.OrdinalOf("web", n); ok {
			got = append(got, o)
		}
	}
	sort.Ints(got)
	if fmt.Sprint(got) != fmt.Sprint(want) {
		rep.Violation("C01", "controller-pods-after-slot-edit", fmt.Sprintf("%s: pods at %v, desired ordinals are %v", label, got, want), func() interface{} {
			return map[string]interface{}{"kind": "c01-journey", "case": label, "trace": trace}
		})
	}
	h := sha256.Sum256([]byte(label))
	var k [16]byte
	copy(k[:], h[:16])
	rep.Count(k, true, "journey")
}

func init() {
	register("c01", "desired ordinals: helpers and controller vs reference (bounded-exhaustive inputs)", func([]string) int {
		thorough := explore.Tier() == "thorough"
		rep := explore.NewReport("C01", "model_checking")
		rep.Rule = "bounded-exhaustive inputs: replicas 0..6 (thorough 0..8) x {annotation absent, nil annotation map, 24 malformed/edge values, every subset of {-2..8} with <=4 (thorough <=5) members and int32-extreme sets, each in canonical/permuted/duplicated/whitespace encodings}; every helper compared with the reference model (first r non-negative integers not listed); the real controller run on an empty cluster under Parallel (one reconcile) and OrderedReady (reconcile/kubelet loop to quiescence) for every input with distinct slot sets; plus edit journeys on the real controller: replicas 0..3, slots s1 then s2 over all pairs of subsets of {0..3} with <=2 members (s2 may remove the annotation), with and without a template edit, both policies, each phase run to quiescence, the edit delivered as an update event through the real set handler (which must enqueue the set although an annotation-only edit leaves metadata.generation alone): the pods must end at exactly desired(r, s2); journeys without an edit in which every desired pod in turn goes Failed and Succeeded and must be replaced at its own ordinal; every create of every journey is checked against the desired ordinals of the moment; journeys in which the annotation stays (subsets of {0..5} with <=2 members) and replicas moves r -> r2 over 0..4, ending at desired(r2, s); and sets that own a healthy pod named <set>-(2^32+k), which is no member, must still create ordinal k. Non-trivial = the annotation denotes at least one slot."
		rep.Assumptions = []string{"for values that are not a JSON list of int32 the reference reads 'no slots' (the annotation codec's own contract)", "replicas near MaxInt32 are out of bound (the reconciler allocates a slice of that length)"}
		var inputs []c01Input
		c01Inputs(thorough, func(in c01Input) { inputs = append(inputs, in) })
		for _, in := range inputs {
			c01Helpers(rep, in)
		}
		// controller: every input whose annotation is in canonical/raw form (skip re-encodings of the same set)
		seen := map[string]bool{}
		ch := make(chan c01Input, 64)
		var wg sync.WaitGroup
		for i := 0; i < explore.Workers(); i++ {
			wg.Add(1)
			go func() {
				defer wg.Done()
				w := world.New()
				for in := range ch {
					c01Controller(rep, w, in, "Parallel")
					c01Controller(rep, w, in, "OrderedReady")
				}
			}()
		}
		for _, in := range inputs {
			obj := in.object()
			ref := oracle.ParseSlots(obj.Annotations)
			huge := false
			for s := range ref {
				if s > 64 || s < -64 {
					huge = true
				}
			}
			key := fmt.Sprintf("%d|%v|%v", in.R, slotsKey(ref), in.Label == "raw")
			if in.Label == "raw" {
				key += *in.Ann
			}
			if seen[key] || (huge && in.Label != "list") {
				continue
			}
			seen[key] = true
			ch <- in
		}
		close(ch)
		wg.Wait()
		// edit journeys: slots s1, then s2 (also removed), with and without a template edit in between
		type jb struct {
			r, r2  int32
			s1, s2 []int32
			pol    string
			tmpl   bool
		}
		jch := make(chan jb, 64)
		var jwg sync.WaitGroup
		for i := 0; i < explore.Workers(); i++ {
			jwg.Add(1)
			go func() {
				defer jwg.Done()
				w := world.New()
				for j := range jch {
					c01Journey(rep, w, j.r, j.s1, j.s2, j.pol, j.tmpl, j.r2)
				}
			}()
		}
		sub := gen.Subsets([]int32{0, 1, 2, 3}, 2)
		for r := int32(0); r <= 3; r++ {
			for _, s1 := range sub {
				for _, s2 := range sub {
					if fmt.Sprint(s1) == fmt.Sprint(s2) {
						continue
					}
					for _, pol := range []string{"Parallel", "OrderedReady"} {
						for _, t := range []bool{false, true} {
							jch <- jb{r, r, s1, s2, pol, t}
						}
					}
				}
			}
		}
		// no edit at all, but every desired pod finishes in turn (slots below desired ordinals make index and ordinal differ)
		for r := int32(1); r <= 3; r++ {
			for _, sl := range sub {
				for _, pol := range []string{"Parallel", "OrderedReady"} {
					jch <- jb{r, r, sl, sl, pol, false}
				}
			}
		}
		// the annotation stays and the replica count moves (slots that were outside the range come into it and back:
		// whatever the controller worked out for the old count must not outlive it); every worker's controller goes
		// through many such journeys in a row, as one long-running process would
		wide := gen.Subsets([]int32{0, 1, 2, 3, 4, 5}, 2)
		for r := int32(0); r <= 4; r++ {
			for r2 := int32(0); r2 <= 4; r2++ {
				if r == r2 {
					continue
				}
				for _, sl := range wide {
					for _, pol := range []string{"Parallel", "OrderedReady"} {
						jch <- jb{r, r2, sl, sl, pol, false}
					}
				}
			}
		}
		close(jch)
		jwg.Wait()
		// pods whose numeric suffix does not fit an int32 are no members: an owned, healthy, up-to-date pod named
		// <set>-(2^32+k) must not stand in for ordinal k
		{
			w := world.New()
			for r := int32(1); r <= 3; r++ {
				for _, sl := range gen.Subsets([]int32{0, 1, 2, 3}, 1) {
					ref := refSet(sl)
					for _, k := range oracle.Desired(r, ref) {
						for _, pol := range []string{"Parallel", "OrderedReady"} {
							sp := gen.Spec{Name: "web", Replicas: r, Slots: sl, Policy: pol, Strategy: gen.RU(0), Limit: 10, Template: 1}
							sc := gen.Scenario{Spec: sp, Revs: []int{1}, Cur: 0, Far: []int{1<<32 + int(k)}}
							st := sc.Build(w)
							w.Lag = 0
							w.Load(st)
							label := fmt.Sprintf("r=%d slots=%v %s with an owned pod web-%d", r, sl, pol, 1<<32+int(k))
							for i := 0; i < 40; i++ {
								rec := w.Reconcile(world.NS+"/web", nil)
								rep.AddStates(1, 1)
								if rec.Panic != nil {
									rep.Violation("C01", "controller-panic", label+": "+fmt.Sprint(rec.Panic), nil)
									break
								}
								progressed := len(rec.Writes()) > 0
								for _, l := range world.EnvProgress(w.S) {
									world.Apply(w.S, l, 0)
									progressed = true
								}
								if !progressed {
									break
								}
							}
							var missing []int32
							for _, d := range oracle.Desired(r, ref) {
								if _, ok := w.S.API.Pods[gen.PodName("web", int(d))]; !ok {
									missing = append(missing, d)
								}
							}
							if len(missing) > 0 {
								rep.Violation("C01", "controller-pods-with-oversized-ordinal", fmt.Sprintf("%s: desired ordinals %v were never created", label, missing), nil)
							}
							h := sha256.Sum256([]byte(label))
							var kk [16]byte
							copy(kk[:], h[:16])
							rep.Count(kk, true, "oversized ordinal")
						}
					}
				}
			}
		}
		rep.Validated = rep.States
		return rep.Finish()
	})
}
