package main

import (
	"fmt"
	"os"
	"sort"
	"strconv"
	"time"

	v1 "k8s.io/api/core/v1"
	metav1 "k8s.io/apimachinery/pkg/apis/meta/v1"
	"k8s.io/apimachinery/pkg/labels"

	"verif/internal/explore"
	"verif/internal/gen"
	"verif/internal/oracle"
	"verif/internal/world"
)

// refUpdateRev: the stored revision whose data records the set's current
// template (highest in revision order), by the reference model.
func refUpdateRev(st *world.State) string {
	set := st.API.Sets["web"]
	if set == nil {
		return ""
	}
	sig := oracle.TemplateSig(&set.Spec.Template)
	best := ""
	var bestRev int64 = -1
	for _, n := range world.SortedKeys(st.API.Revs) {
		r := st.API.Revs[n]
		if ref := oracle.ControllerOf(r); ref != nil && ref.UID != set.UID {
			continue
		}
		if oracle.RevTemplateSig(r) == sig && r.Revision >= bestRev {
			best, bestRev = r.Name, r.Revision
		}
	}
	return best
}

// goalC02 is the goal predicate of C02 on API truth ("" if it holds).
func goalC02(st *world.State) string {
	set := st.API.Sets["web"]
	if set == nil {
		return "" // nothing to converge to
	}
	sel, err := metav1.LabelSelectorAsSelector(set.Spec.Selector)
	if err != nil {
		return "bad selector"
	}
	des := map[int]bool{}
	for _, d := range oracle.Desired(*set.Spec.Replicas, oracle.ParseSlots(set.Annotations)) {
		des[int(d)] = true
	}
	upd := refUpdateRev(st)
	ru := set.Spec.UpdateStrategy.RollingUpdate
	partOK := (set.Spec.UpdateStrategy.Type == "RollingUpdate" || set.Spec.UpdateStrategy.Type == "") && ru != nil && ru.Partition != nil
	have := map[int]bool{}
	for _, n := range world.SortedKeys(st.API.Pods) {
		p := st.API.Pods[n]
		ord, ok := oracle.OrdinalOf(set.Name, p.Name)
		if !ok || !sel.Matches(labels.Set(p.Labels)) {
			continue
		}
		ref := oracle.ControllerOf(p)
		if ref == nil {
			if p.DeletionTimestamp == nil {
				return "adoptable orphan " + p.Name + " not adopted"
			}
			continue
		}
		if ref.UID != set.UID {
			continue
		}
		if !des[ord] {
			return "pod " + p.Name + " outside the desired set still present"
		}
		if !oracle.IsHealthy(p) {
			return "pod " + p.Name + " not Ready or terminating"
		}
		if partOK && ord >= int(*ru.Partition) && oracle.PodRev(p) != upd {
			return fmt.Sprintf("pod %s at revision %s, update revision is %s", p.Name, oracle.PodRev(p), upd)
		}
		have[ord] = true
	}
	for o := range des {
		if !have[o] {
			return fmt.Sprintf("desired pod %d missing", o)
		}
	}
	s := set.Status
	if s.Replicas != *set.Spec.Replicas || s.ReadyReplicas != *set.Spec.Replicas {
		return fmt.Sprintf("status replicas=%d ready=%d, spec.replicas=%d", s.Replicas, s.ReadyReplicas, *set.Spec.Replicas)
	}
	// a status that lags behind the spec is not final; one left ahead of it by another writer is outside what the
	// property fixes (the counters above are what it names)
	if s.ObservedGeneration < set.Generation {
		return fmt.Sprintf("observedGeneration=%d generation=%d", s.ObservedGeneration, set.Generation)
	}
	return ""
}

// excuseC02: the premise failure the property names (OrderedReady, >=2 pods
// outside the desired set that can never become Ready).
func excuseC02(st *world.State) string {
	set := st.API.Sets["web"]
	if set == nil {
		return ""
	}
	des := map[int]bool{}
	for _, d := range oracle.Desired(*set.Spec.Replicas, oracle.ParseSlots(set.Annotations)) {
		des[int(d)] = true
	}
	dead := 0
	sel, _ := metav1.LabelSelectorAsSelector(set.Spec.Selector)
	for _, n := range world.SortedKeys(st.API.Pods) {
		p := st.API.Pods[n]
		ord, ok := oracle.OrdinalOf(set.Name, p.Name)
		if ok && !des[ord] && oracle.IsDead(p) {
			dead++
		}
		if ok && des[ord] {
			ref := oracle.ControllerOf(p)
			if (ref != nil && ref.UID != set.UID) || (ref == nil && (!sel.Matches(labels.Set(p.Labels)) || p.DeletionTimestamp != nil && false)) {
				return "a desired pod name (" + p.Name + ") is held by a pod the set cannot claim"
			}
		}
	}
	if dead >= 2 && set.Spec.PodManagementPolicy != "Parallel" {
		return fmt.Sprintf("OrderedReady with %d Failed/Succeeded pods outside the desired set (blocked by upstream design)", dead)
	}
	return ""
}

type devOpts struct {
	N        int // ordinal universe
	MaxR     int32
	MaxSlots int
	Edits    bool
	Regress  bool
	Pause    bool
	Delete   bool
}

func deviationsFor(o devOpts) func(st *world.State) []string {
	return func(st *world.State) []string {
		set := st.API.Sets["web"]
		if set == nil {
			return nil
		}
		var out []string
		if o.Edits {
			r := *set.Spec.Replicas
			if r < o.MaxR {
				out = append(out, "replicas +1")
			}
			if r > 0 {
				out = append(out, "replicas -1")
			}
			slots := oracle.ParseSlots(set.Annotations)
			for k := 0; k < o.N; k++ {
				if slots[int32(k)] {
					out = append(out, fmt.Sprintf("slot- %d", k))
				} else if len(slots) < o.MaxSlots {
					out = append(out, fmt.Sprintf("slot+ %d", k))
					if r > 0 {
						out = append(out, fmt.Sprintf("scalein %d", k))
					}
				}
			}
			cur := oracle.TemplateSig(&set.Spec.Template)
			for k := 1; k <= 3; k++ {
				if gen.Image(k) != cur {
					out = append(out, "template "+gen.Image(k))
				}
			}
			if ru := set.Spec.UpdateStrategy.RollingUpdate; set.Spec.UpdateStrategy.Type == "RollingUpdate" && ru != nil && ru.Partition != nil {
				for _, p := range []int32{0, 2} {
					if *ru.Partition != p {
						out = append(out, fmt.Sprintf("partition %d", p))
					}
				}
			}
			out = append(out, "label x")
		}
		if o.Regress {
			for _, n := range world.SortedKeys(st.API.Pods) {
				p := st.API.Pods[n]
				if p.DeletionTimestamp == nil && p.Status.Phase == v1.PodRunning {
					out = append(out, "fail "+n)
					if oracle.IsReady(p) {
						out = append(out, "unready "+n)
					}
				}
				if p.DeletionTimestamp == nil {
					out = append(out, "userdelete "+n)
				}
			}
		}
		if o.Pause {
			if set.Annotations["paused-reconcile"] == "true" {
				out = append(out, "pause off")
			} else {
				out = append(out, "pause on")
			}
		}
		if o.Delete && set.DeletionTimestamp == nil {
			out = append(out, "markdeleted x")
		}
		sort.Strings(out)
		return out
	}
}

// searchSeeds builds seed states from grids.
func searchSeeds(grids []gridOpts) []explore.Seed {
	w := world.New()
	var seeds []explore.Seed
	seen := map[world.Key]bool{}
	for _, o := range grids {
		snapshotGrid(o, func(c explore.Case) bool {
			st := c.Build(w)
			k := st.Key()
			if !seen[k] {
				seen[k] = true
				seeds = append(seeds, explore.Seed{Label: c.Label, State: st})
			}
			return true
		})
	}
	return seeds
}

func c02Grids() []gridOpts {
	g := gridOpts{N: 3, MaxR: 2, MaxSlots: 1, Policies: []string{"OrderedReady", "Parallel"},
		Strategies: []gen.Strategy{gen.RU(0), gen.RU(1), gen.OnDelete()}, Histories: coreHistories, DMin: 0, DMax: 1, Limit: 10}
	// less common configuration: the selector written as expressions (steady states and single differences)
	e := g
	e.SelExpr, e.MaxSlots = true, 0
	e.Strategies = []gen.Strategy{gen.RU(0), gen.RU(1)}
	e.Histories = []history{histories[1], histories[5], histories[8]}
	// a status left by another writer (helper.Upgrade copies the built-in status into a fresh object; a restore from
	// backup): observedGeneration ahead of generation, counters no census
	a := g
	a.StatusAhead, a.MaxSlots = true, 0
	a.Strategies = []gen.Strategy{gen.RU(0)}
	a.Histories = []history{histories[0], histories[1]}
	return []gridOpts{g, e, a}
}

// c02WideGrids is the larger seed grid of the thorough tier (explored with one deviation).
func c02WideGrids() []gridOpts {
	g := gridOpts{N: 4, MaxR: 3, MaxSlots: 1, Policies: []string{"OrderedReady", "Parallel"},
		Strategies: []gen.Strategy{gen.RU(0), gen.RU(1), gen.RU(2), gen.OnDelete()}, Histories: coreHistories, DMin: 0, DMax: 1, Limit: 10}
	return []gridOpts{g}
}

func init() {
	register("c02", "convergence and quiescence (deviation-bounded search + bottom-SCC analysis)", func([]string) int {
		rep := explore.NewReport("C02", "model_checking")
		rep.Assumptions = append([]string{"fairness = every progress transition (reconcile, kubelet forward/finish, cache delivery) that stays enabled is eventually taken; decided graph-theoretically: every bottom SCC of the progress graph must be a quiescent goal state",
			"Failed/Succeeded pods never become Ready; under OrderedReady >=2 such pods outside the desired set are the premise failure the property names (excused, counted)"}, apiAssumptions...)
		grids := c02Grids()
		seeds := append(searchSeeds(grids), c09ExtraSeeds(false)...)
		{
			// a live pod whose volumes do not cover the claim templates (a template added to the running set; an orphan
			// that never had the volume): only this check carries these seeds
			w := world.New()
			for _, pol := range []string{"OrderedReady", "Parallel"} {
				for _, owner := range []string{"", "none"} {
					bare := gen.Cell{Present: true, Phase: v1.PodRunning, Ready: true, Rev: 0, Owner: owner, NoVols: true}
					sc := gen.Scenario{Spec: gen.Spec{Name: "web", Replicas: 2, Policy: pol, Strategy: gen.RU(0), Limit: 10, Template: 1, Claims: []string{"data"}}, Revs: []int{1}, Cur: 0,
						Cells: []gen.Cell{bare, gen.ReadyAt(0), gen.Absent}}
					seeds = append(seeds, explore.Seed{Label: sc.String(), State: sc.Build(w)})
				}
			}
		}
		D := 1
		if explore.Tier() == "thorough" {
			D = 2
		}
		lag := 0
		if v, err := strconv.Atoi(os.Getenv("VERIF_LAG")); err == nil {
			lag = v
		}
		if v, err := strconv.Atoi(os.Getenv("VERIF_D")); err == nil {
			D = v
		}
		cfg := explore.SearchCfg{Prop: "C02", D: D, Lag: lag,
			Deviations: deviationsFor(devOpts{N: grids[0].N, MaxR: grids[0].MaxR, MaxSlots: 2, Edits: true, Regress: true}),
			FaultKinds: []string{world.FErr500},
			FaultOn:    func(c *world.Call) bool { return c.IsWrite() },
			Goal: func(st *world.State) string {
				// named first, so that the recorded finding is recognised by its input and nothing else is
				if p := podLackingClaimVolumes(st); p != "" {
					return "live pod " + p + " lacks the volumes of the set's claim templates, and the pod update that is to add them is one the API server refuses (pod specs are immutable): " + goalC02(st)
				}
				return goalC02(st)
			}, Excuse: excuseC02,
			Deadline: explore.Deadline(110*time.Second, 14*time.Minute)}
		g := explore.Search(rep, cfg, seeds)
		g.Analyse()
		bottoms, excused := g.CheckConvergence(rep)
		if explore.Tier() == "thorough" && os.Getenv("VERIF_LAG") == "" {
			// second search: a wider seed grid with one deviation
			wide := searchSeeds(c02WideGrids())
			cfg2 := cfg
			cfg2.D = 1
			cfg2.Deviations = deviationsFor(devOpts{N: 4, MaxR: 3, MaxSlots: 2, Edits: true, Regress: true})
			cfg2.Deadline = time.Now().Add(14 * time.Minute)
			g2 := explore.Search(rep, cfg2, wide)
			g2.Analyse()
			b2, e2 := g2.CheckConvergence(rep)
			rep.Extra["wide_search"] = map[string]interface{}{"seeds": len(wide), "states": len(g2.Nodes), "reconciles": g2.Reconciles, "bottom_sccs": b2, "excused": e2, "deviation_bound": 1, "complete": g2.Complete}
			for k := range g2.Nodes {
				rep.Count(k, true, "")
			}
			// stale caches: progress closure with lag 1 and 2
			for _, l := range []int{1, 2} {
				cfg3 := cfg
				cfg3.D, cfg3.Lag = 0, l
				cfg3.Deadline = time.Now().Add(4 * time.Minute)
				g3 := explore.Search(rep, cfg3, seeds)
				g3.Analyse()
				b3, e3 := g3.CheckConvergence(rep)
				rep.Extra[fmt.Sprintf("lag_%d_search", l)] = map[string]interface{}{"states": len(g3.Nodes), "bottom_sccs": b3, "excused": e3, "complete": g3.Complete}
			}
		} else if os.Getenv("VERIF_LAG") == "" {
			cfg3 := cfg
			cfg3.D, cfg3.Lag = 0, 1
			cfg3.Deadline = explore.Deadline(40*time.Second, time.Minute)
			g3 := explore.Search(rep, cfg3, seeds)
			g3.Analyse()
			b3, e3 := g3.CheckConvergence(rep)
			rep.Extra["lag_1_search"] = map[string]interface{}{"states": len(g3.Nodes), "bottom_sccs": b3, "excused": e3, "complete": g3.Complete}
		}
		desc := ""
		for _, o := range grids {
			desc += fmtOpts(o)
		}
		rep.Rule = fmt.Sprintf("explicit-state search of the real reconciler in a closed world: %d seed states (%s); progress transitions = reconcile, kubelet forward/finish (all interleavings, deduplicated by canonical state key); deviations (bound D=%d) = user edits (replicas +-1, slot add/remove, scale-in at k, template T1..T3, partition, label), pod regressions (unready, fail, user delete) and an InternalError on any single API write of a reconcile; convergence verdict = every bottom SCC of the progress graph is one quiescent goal state. The same seeds are also explored with stale caches (lag bound 1; thorough: 1 and 2, plus a wider 4-ordinal seed grid with one deviation). Non-trivial/distinct = states.", len(seeds), desc, D)
		rep.Extra["seeds"] = len(seeds)
		rep.Extra["reconciles"] = g.Reconciles
		rep.Extra["bottom_sccs"] = bottoms
		rep.Extra["excused_bottom_sccs"] = excused
		rep.Extra["deviation_bound"] = D
		rep.Extra["cache_lag_bound"] = lag
		depthHist := map[string]int{}
		i := 0
		for k, n := range g.Nodes {
			depthHist[fmt.Sprintf("deviations=%d", n.Depth)]++
			rep.Count(k, true, "")
			if i < 3 && n.Seed < 0 && n.Depth > 0 {
				i++
				p := g.PathTo(k)
				rep.Sample(map[string]interface{}{"seed": p.SeedLabel, "path": p.Transitions})
			}
		}
		rep.Extra["states_by_deviation_depth"] = depthHist
		rep.Validated = g.Reconciles
		return rep.Finish()
	})
}

// podLackingClaimVolumes names a live pod of the set (by name and owner, or an orphan it would adopt) that has no volume
// for one of the set's claim templates, "" if there is none.
func podLackingClaimVolumes(st *world.State) string {
	set := st.API.Sets["web"]
	if set == nil || len(set.Spec.VolumeClaimTemplates) == 0 {
		return ""
	}
	for _, n := range world.SortedKeys(st.API.Pods) {
		p := st.API.Pods[n]
		if _, ok := oracle.OrdinalOf(set.Name, p.Name); !ok || p.DeletionTimestamp != nil {
			continue
		}
		if ref := oracle.ControllerOf(p); ref != nil && ref.UID != set.UID {
			continue
		}
		have := map[string]bool{}
		for _, v := range p.Spec.Volumes {
			if v.PersistentVolumeClaim != nil {
				have[v.Name] = true
			}
		}
		for _, t := range set.Spec.VolumeClaimTemplates {
			if !have[t.Name] {
				return p.Name
			}
		}
	}
	return ""
}
