package main

import (
	"context"
	"crypto/sha256"
	"encoding/json"
	"fmt"
	"os"
	"regexp"
	"sort"
	"strings"
	"sync"
	"time"

	asv1 "github.com/pingcap/advanced-statefulset/client/apis/apps/v1"
	"github.com/pingcap/advanced-statefulset/client/apis/apps/v1/helper"
	appsv1 "k8s.io/api/apps/v1"
	v1 "k8s.io/api/core/v1"
	metav1 "k8s.io/apimachinery/pkg/apis/meta/v1"
	"k8s.io/apimachinery/pkg/labels"

	"verif/internal/explore"
	"verif/internal/gen"
	"verif/internal/oracle"
	"verif/internal/world"
)

// C17: the upgrade helper under every fault / crash position.

type c17Case struct {
	Selector string   // matchLabels | expressions | both
	Revs     []string // each: "match" | "nomatch" | "foreign"
	Adv      string   // absent | equal | different
}

func (c c17Case) String() string {
	return fmt.Sprintf("selector=%s revisions=%v advanced=%s", c.Selector, c.Revs, c.Adv)
}

func builtinFrom(a *asv1.StatefulSet) *appsv1.StatefulSet {
	b, _ := json.Marshal(a)
	out := &appsv1.StatefulSet{}
	if err := json.Unmarshal(b, out); err != nil {
		panic(err)
	}
	out.APIVersion = "apps/v1"
	return out
}

func (c c17Case) build() (*world.State, *appsv1.StatefulSet) {
	sp := gen.Spec{Name: "web", Replicas: 2, Policy: "OrderedReady", Strategy: gen.RU(0), Limit: 10, Template: 1, Claims: []string{"data"}}
	adv := sp.Build()
	switch c.Selector {
	case "expressions":
		adv.Spec.Selector = &metav1.LabelSelector{MatchExpressions: []metav1.LabelSelectorRequirement{{Key: "app", Operator: metav1.LabelSelectorOpIn, Values: []string{"web"}}}}
	case "both":
		adv.Spec.Selector = &metav1.LabelSelector{MatchLabels: map[string]string{"app": "web"}, MatchExpressions: []metav1.LabelSelectorRequirement{{Key: "app", Operator: metav1.LabelSelectorOpExists}}}
	case "exists":
		adv.Spec.Selector = &metav1.LabelSelector{MatchExpressions: []metav1.LabelSelectorRequirement{{Key: "app", Operator: metav1.LabelSelectorOpExists}}}
	case "exists+notin":
		adv.Spec.Selector = &metav1.LabelSelector{MatchExpressions: []metav1.LabelSelectorRequirement{{Key: "app", Operator: metav1.LabelSelectorOpExists}, {Key: "tier", Operator: metav1.LabelSelectorOpNotIn, Values: []string{"cache"}}}}
	case "label+absent":
		adv.Spec.Selector = &metav1.LabelSelector{MatchLabels: map[string]string{"app": "web"}, MatchExpressions: []metav1.LabelSelectorRequirement{{Key: "canary", Operator: metav1.LabelSelectorOpDoesNotExist}}}
	}
	sts := builtinFrom(adv)
	sts.UID = "uid-builtin-web"
	sts.ResourceVersion = "7"
	sts.Status = appsv1.StatefulSetStatus{ObservedGeneration: 1, Replicas: 2, ReadyReplicas: 2, CurrentReplicas: 2, UpdatedReplicas: 2, CurrentRevision: "web-r0", UpdateRevision: "web-r0"}
	st := world.NewState()
	st.API.BSets["web"] = sts
	t := true
	for i, kind := range c.Revs {
		r := &appsv1.ControllerRevision{ObjectMeta: metav1.ObjectMeta{Name: fmt.Sprintf("web-r%d", i), Namespace: world.NS, UID: "uid-r", ResourceVersion: "3",
			Labels:          map[string]string{"app": "web", "controller.kubernetes.io/hash": fmt.Sprint(i)},
			OwnerReferences: []metav1.OwnerReference{{APIVersion: "apps/v1", Kind: "StatefulSet", Name: "web", UID: sts.UID, Controller: &t}}}, Revision: int64(i + 1)}
		switch kind {
		case "nomatch":
			r.Labels["app"] = "other"
			if strings.HasPrefix(c.Selector, "exists") {
				delete(r.Labels, "app")
			}
		case "foreign":
			r.OwnerReferences[0] = metav1.OwnerReference{APIVersion: "apps/v1", Kind: "DaemonSet", Name: "ds", UID: "uid-ds", Controller: &t}
		}
		st.API.Revs[r.Name] = r
	}
	for i := 0; i < 2; i++ {
		p := gen.BuildPod(adv, i, gen.ReadyAt(0), "web-r0", 1, nil)
		p.OwnerReferences = []metav1.OwnerReference{{APIVersion: "apps/v1", Kind: "StatefulSet", Name: "web", UID: sts.UID, Controller: &t}}
		st.API.Pods[p.Name] = p
		n := fmt.Sprintf("data-web-%d", i)
		st.API.PVCs[n] = &v1.PersistentVolumeClaim{ObjectMeta: metav1.ObjectMeta{Name: n, Namespace: world.NS, Labels: map[string]string{"app": "web"}}}
	}
	switch c.Adv {
	case "equal":
		a := adv.DeepCopy()
		a.UID = "uid-adv-web"
		a.Status = asv1.StatefulSetStatus{}
		st.API.Sets["web"] = a
	case "different":
		a := adv.DeepCopy()
		a.UID = "uid-adv-web"
		r := int32(5)
		a.Spec.Replicas = &r
		a.Labels = map[string]string{"owner": "someone"}
		a.Status = asv1.StatefulSetStatus{Replicas: 9}
		st.API.Sets["web"] = a
	case "superset":
		// left by an earlier, interrupted upgrade of an older version of the built-in set: it has everything the
		// built-in set has now, plus map entries and optional fields that were removed there since
		a := adv.DeepCopy()
		a.UID = "uid-adv-web"
		a.Spec.Template.Labels["track"] = "canary"
		a.Spec.Template.Annotations = map[string]string{"note": "old"}
		a.Spec.Template.Spec.NodeSelector = map[string]string{"disk": "ssd"}
		grace := int64(5)
		a.Spec.Template.Spec.TerminationGracePeriodSeconds = &grace
		a.Status = asv1.StatefulSetStatus{}
		st.API.Sets["web"] = a
	}
	st.SyncCaches()
	return st, sts
}

var uidRe = regexp.MustCompile(`uid-web-\d+`)

func normFinal(st *world.State) string { return uidRe.ReplaceAllString(st.Describe(), "uid-web-N") }

type c17Run struct {
	calls   []*world.Call
	err     error
	crashed bool
	panicV  interface{}
}

func c17Upgrade(w *world.World, sts *appsv1.StatefulSet, plan world.FaultPlan) c17Run {
	var r c17Run
	w.Begin(plan)
	func() {
		defer func() {
			if x := recover(); x != nil {
				if _, ok := x.(world.CrashSentinel); ok {
					r.crashed = true
					return
				}
				if he, ok := x.(world.HarnessError); ok {
					panic(he)
				}
				r.panicV = x
			}
		}()
		_, r.err = helper.Upgrade(context.TODO(), w.Kube, w.PC, sts.DeepCopy())
	}()
	r.calls = w.End()
	return r
}

// c17Judge checks the safety clauses on one run of the helper.
func c17Judge(pre *world.State, post *world.State, sts *appsv1.StatefulSet, initialRevs []string, run c17Run) []string {
	var out []string
	if run.panicV != nil {
		out = append(out, fmt.Sprintf("panic|helper panicked: %v", run.panicV))
	}
	sel, _ := metav1.LabelSelectorAsSelector(sts.Spec.Selector)
	// replay the log against a shadow of the pre-state to know what existed when the delete was issued
	for i, c := range run.calls {
		if c.IsWrite() && (c.Resource == "pods" || c.Resource == "persistentvolumeclaims") {
			out = append(out, fmt.Sprintf("pod-or-claim-write|%s", c.ID))
		}
		if c.Verb == "delete" && c.Resource == "bstatefulsets" {
			if c.DelOpts == nil || c.DelOpts.PropagationPolicy == nil || *c.DelOpts.PropagationPolicy != metav1.DeletePropagationOrphan {
				out = append(out, "delete-not-orphan|built-in set deleted without orphan propagation")
			}
			// state at that moment = post-state of the calls so far; we only have pre/post, so
			// reconstruct from results of earlier calls in this run plus the pre-state.
			adv := pre.API.Sets[sts.Name]
			for _, x := range run.calls[:i] {
				if x.Resource == "statefulsets" && x.IsWrite() && x.OK() {
					if s, ok := x.Result.(*asv1.StatefulSet); ok {
						adv = s
					}
				}
				if x.Resource == "statefulsets" && x.Fault == world.FTimeout {
					adv = nil // unknown; look at post below
				}
			}
			if adv == nil {
				adv = post.API.Sets[sts.Name]
			}
			want, _ := helper.FromBuiltinStatefulSet(sts)
			switch {
			case adv == nil:
				out = append(out, "delete-before-create|built-in set deleted while no Advanced StatefulSet exists")
			default:
				a, _ := json.Marshal(adv.Spec)
				b, _ := json.Marshal(want.Spec)
				if string(a) != string(b) {
					out = append(out, "delete-with-different-spec|built-in set deleted while the Advanced set's spec differs")
				} else if d := jsonIncluded(toTree(specWithoutDefaultRetention(sts)), toTree(adv.Spec), "$.spec"); d != "" {
					// the reference is the built-in object itself, not what the helper's own conversion makes of it
					out = append(out, "delete-with-different-spec|built-in set deleted while the Advanced set's spec lacks what the built-in spec says: "+d)
				}
				a, _ = json.Marshal(adv.Status)
				b, _ = json.Marshal(want.Status)
				if string(a) != string(b) {
					out = append(out, fmt.Sprintf("delete-with-different-status|built-in set deleted while the Advanced set's status differs: %s vs %s", a, b))
				}
			}
			// revisions as of now: pre-state plus successful updates so far
			revs := map[string]*appsv1.ControllerRevision{}
			for n, r := range pre.API.Revs {
				revs[n] = r
			}
			for _, x := range run.calls[:i] {
				if x.Resource == "controllerrevisions" && x.Verb == "update" && (x.OK() || x.Fault == world.FTimeout) {
					if r, ok := x.Obj.(*appsv1.ControllerRevision); ok {
						revs[r.Name] = r
					}
				}
			}
			for _, n := range initialRevs {
				r := revs[n]
				if r == nil {
					continue
				}
				if r.Labels["apps.pingcap.com/upgrade-to-asts"] != sts.Name {
					out = append(out, "revision-not-marked|built-in set deleted while revision "+n+" lacks the upgrade marker")
				}
				if sel.Matches(labels.Set(r.Labels)) {
					out = append(out, "revision-still-selected|built-in set deleted while revision "+n+" still matches the built-in set's selector (the built-in controller would re-adopt it and garbage collection delete it)")
				}
			}
		}
	}
	return out
}

func c17Explore(rep *explore.Report, w *world.World, c c17Case, depth int, kinds []string) {
	defer func() {
		if r := recover(); r != nil {
			if he, ok := r.(world.HarnessError); ok {
				fmt.Fprintf(os.Stderr, "HARNESS ERROR in %s: %s\n", c, he.Msg)
				os.Exit(2)
			}
			panic(r)
		}
	}()
	seed, sts := c.build()
	sel, _ := metav1.LabelSelectorAsSelector(sts.Spec.Selector)
	var initialRevs []string
	for _, n := range world.SortedKeys(seed.API.Revs) {
		// the revisions "of the set": matched by its selector and controlled by it (or by nobody); what the helper does
		// to a matching revision of another owner is not something the property fixes
		r := seed.API.Revs[n]
		if ref := oracle.ControllerOf(r); sel.Matches(labels.Set(r.Labels)) && (ref == nil || ref.UID == sts.UID) {
			initialRevs = append(initialRevs, n)
		}
	}
	report := func(rule, msg string, history []string) {
		rep.Violation("C17", rule, c.String()+": "+msg, func() interface{} {
			return map[string]interface{}{"kind": "c17", "case": c, "runs": history}
		})
	}
	// reference: uninterrupted run
	w.Lag = 0
	w.Load(seed)
	ref := c17Upgrade(w, sts, nil)
	refFinal := w.S.Clone()
	for _, v := range c17Judge(seed, refFinal, sts, initialRevs, ref) {
		p := strings.SplitN(v, "|", 2)
		report(p[0], "uninterrupted run: "+p[1], []string{"(no fault)"})
	}
	if ref.err != nil || ref.panicV != nil {
		report("uninterrupted-run-fails", fmt.Sprintf("helper failed without any fault: err=%v panic=%v", ref.err, ref.panicV), []string{"(no fault)"})
		return
	}
	if _, still := refFinal.API.BSets["web"]; still {
		report("builtin-not-deleted", "uninterrupted run leaves the built-in set in place", []string{"(no fault)"})
	}
	want := normFinal(refFinal)
	var runs int64
	var rec func(st *world.State, left int, history []string)
	rec = func(st *world.State, left int, history []string) {
		// dry run from st to learn the call list
		w.Load(st)
		dry := c17Upgrade(w, sts, nil)
		runs++
		dryFinal := w.S.Clone()
		hist0 := append(append([]string{}, history...), "(no fault)")
		for _, v := range c17Judge(st, dryFinal, sts, initialRevs, dry) {
			p := strings.SplitN(v, "|", 2)
			report(p[0], p[1], hist0)
		}
		if dry.err != nil || dry.panicV != nil || dry.crashed {
			report("retry-does-not-succeed", fmt.Sprintf("with no further faults the helper still fails: err=%v panic=%v", dry.err, dry.panicV), hist0)
			return
		}
		envChanged := false
		for _, hh := range history {
			if strings.HasSuffix(hh, "="+world.FGone) || strings.HasSuffix(hh, "="+world.FExistsOther) {
				envChanged = true // somebody else removed or created an object: the final state legitimately differs
			}
		}
		if got := normFinal(dryFinal); got != want && !envChanged {
			report("final-state-differs", "after the faults the final state differs from the uninterrupted run:\n--- uninterrupted\n"+want+"--- interrupted\n"+got, hist0)
		}
		h := sha256.Sum256([]byte(c.String() + strings.Join(hist0, ";")))
		var k [16]byte
		copy(k[:], h[:16])
		rep.Count(k, len(history) > 0, fmt.Sprintf("faults=%d", len(history)))
		if rep.WantSample() {
			rep.Sample(map[string]interface{}{"case": c.String(), "faults": history, "calls_of_final_run": explore.CallStrings(&world.Rec{Calls: dry.calls})})
		}
		if left == 0 {
			return
		}
		for _, call := range dry.calls {
			for _, kind := range faultKindsFor(call, kinds) {
				w.Load(st)
				fr := c17Upgrade(w, sts, world.FaultPlan{call.ID: kind})
				runs++
				after := w.S.Clone()
				h := append(append([]string{}, history...), call.ID+"="+kind)
				for _, v := range c17Judge(st, after, sts, initialRevs, fr) {
					p := strings.SplitN(v, "|", 2)
					report(p[0], p[1], h)
				}
				if fr.err == nil && !fr.crashed && fr.panicV == nil {
					// the fault was absorbed; the final state must still be the reference one
					gone := false
					for _, hh := range h {
						gone = gone || strings.HasSuffix(hh, "="+world.FGone) || strings.HasSuffix(hh, "="+world.FExistsOther)
					}
					if got := normFinal(after); got != want && !gone {
						report("final-state-differs", "helper reported success after a fault but the final state differs from the uninterrupted run:\n--- uninterrupted\n"+want+"--- interrupted\n"+got, h)
					}
					continue
				}
				rec(after, left-1, h)
			}
		}
	}
	rec(seed, depth, nil)
	rep.AddStates(runs, runs)
}

func faultKindsFor(c *world.Call, kinds []string) []string {
	var out []string
	for _, k := range kinds {
		switch k {
		case world.FErr500, world.FCrashBefore:
			out = append(out, k)
		case world.FCrashAfter, world.FTimeout:
			if c.IsWrite() {
				out = append(out, k)
			}
		case world.FConflict:
			if c.Verb == "update" {
				out = append(out, k)
			}
		case world.FGone:
			if c.Verb == "update" || c.Verb == "delete" {
				out = append(out, k)
			}
		case world.FExists:
			if c.Verb == "create" {
				out = append(out, k)
			}
		case world.FExistsOther:
			if c.Verb == "create" && c.Resource == "statefulsets" {
				out = append(out, k)
			}
		}
	}
	return out
}

func init() {
	register("c17", "upgrade helper: safe order, orphan propagation, survives faults and crashes", func([]string) int {
		thorough := explore.Tier() == "thorough"
		rep := explore.NewReport("C17", "fault_enumeration")
		depth := 2
		if thorough {
			depth = 3
		}
		kinds := []string{world.FErr500, world.FTimeout, world.FConflict, world.FGone, world.FExists, world.FExistsOther, world.FCrashBefore, world.FCrashAfter}
		rep.Rule = fmt.Sprintf("the real helper.Upgrade on the API model: selector{app=web | app In (web) | app=web and app Exists | app Exists | app Exists and tier NotIn (cache) | app=web and canary DoesNotExist} x revision populations of size 0..3 over {matching, non-matching, foreign-owned} x Advanced set{absent, present equal, present different, present with a superset of the spec (extra template labels/annotations, node selector, optional fields)}; for every API call position of the run x fault kind %v applicable to the verb, then re-run from the resulting state with a further fault at every position, to depth %d, finally re-run without faults; oracle: at the delete of the built-in set an Advanced set with equal spec and status exists, propagation is Orphan, every revision of the set (matched by the selector at the start and controlled by the built-in set or by nobody) carries the marker and no longer matches the selector; no write on pods/claims; a fault-free re-run succeeds and the final state equals the uninterrupted run's (UIDs of the new object normalised; not compared when a `gone` or `existsOther` fault, i.e. a concurrent deletion or a concurrent creation of a different object by someone else, changed the world). Built-in sets whose status says zero replicas (scaled to zero, or lagging behind existing pods) are upgraded once each under the same oracle (orphan propagation whatever the status says). Built-in sets whose spec uses a field the Advanced API does not have (start ordinal, minReadySeconds, a claim retention policy that deletes; the default policy Retain/Retain must not stand in the way) are run once each: the built-in set may only go if the Advanced spec says everything the built-in spec says (judged against the built-in object, not against the helper's own conversion), and a helper that declines leaves no change behind. Non-trivial = at least one fault injected.", kinds, depth)
		rep.Assumptions = []string{"the caller re-runs the helper with the same built-in object it started with", "API model of DESIGN.md Appendix A; the built-in controller and the garbage collector are not running during the upgrade"}
		var cases []c17Case
		var revPops [][]string
		var genPops func(cur []string)
		genPops = func(cur []string) {
			revPops = append(revPops, append([]string{}, cur...))
			if len(cur) == 3 || (!thorough && len(cur) == 2) {
				return
			}
			for _, k := range []string{"match", "nomatch", "foreign"} {
				genPops(append(cur, k))
			}
		}
		genPops(nil)
		for _, s := range []string{"matchLabels", "expressions", "both", "exists", "exists+notin", "label+absent"} {
			for _, p := range revPops {
				for _, a := range []string{"absent", "equal", "different", "superset"} {
					cases = append(cases, c17Case{Selector: s, Revs: p, Adv: a})
				}
			}
		}
		sort.SliceStable(cases, func(i, j int) bool { return len(cases[i].Revs) < len(cases[j].Revs) })
		deadline := explore.Deadline(100*time.Second, 15*time.Minute)
		ch := make(chan c17Case)
		var wg sync.WaitGroup
		for i := 0; i < explore.Workers(); i++ {
			wg.Add(1)
			go func() {
				defer wg.Done()
				w := world.New()
				for c := range ch {
					c17Explore(rep, w, c, depth, kinds)
				}
			}()
		}
		for i, c := range cases {
			if time.Now().After(deadline) {
				rep.Exhaustive = false
				rep.Cap = fmt.Sprintf("deadline after %d of %d cases (smallest revision populations first)", i, len(cases))
				break
			}
			ch <- c
		}
		close(ch)
		wg.Wait()
		c17Unrepresentable(rep)
		rep.Extra["cases"] = len(cases)
		rep.Extra["fault_depth"] = depth
		rep.Validated = rep.States
		return rep.Finish()
	})
}

// c17Unrepresentable: built-in sets whose spec says something the Advanced API has no field for. No Advanced object
// can have "the same spec", so the built-in set must stay; and a helper that declines must decline before it touches
// anything.
func c17Unrepresentable(rep *explore.Report) {
	w := world.New()
	start, minReady := int32(5), int32(10)
	extras := map[string]func(*appsv1.StatefulSet){
		"spec.ordinals.start=5":   func(s *appsv1.StatefulSet) { s.Spec.Ordinals = &appsv1.StatefulSetOrdinals{Start: start} },
		"spec.minReadySeconds=10": func(s *appsv1.StatefulSet) { s.Spec.MinReadySeconds = minReady },
		"spec.persistentVolumeClaimRetentionPolicy=Delete/Retain": func(s *appsv1.StatefulSet) {
			s.Spec.PersistentVolumeClaimRetentionPolicy = &appsv1.StatefulSetPersistentVolumeClaimRetentionPolicy{WhenDeleted: appsv1.DeletePersistentVolumeClaimRetentionPolicyType, WhenScaled: appsv1.RetainPersistentVolumeClaimRetentionPolicyType}
		},
	}
	// the claim retention policy every newer API server fills in (Retain/Retain) says what the Advanced controller does
	// anyway: such a set must be upgraded, not declined
	for _, adv := range []string{"absent", "equal"} {
		c := c17Case{Selector: "matchLabels", Revs: []string{"match", "match"}, Adv: adv}
		seed, sts := c.build()
		sts.Spec.PersistentVolumeClaimRetentionPolicy = &appsv1.StatefulSetPersistentVolumeClaimRetentionPolicy{WhenDeleted: appsv1.RetainPersistentVolumeClaimRetentionPolicyType, WhenScaled: appsv1.RetainPersistentVolumeClaimRetentionPolicyType}
		seed.API.BSets["web"] = sts
		seed.SyncCaches()
		w.Lag = 0
		w.Load(seed)
		selr, _ := metav1.LabelSelectorAsSelector(sts.Spec.Selector)
		var initial []string
		for _, k := range world.SortedKeys(seed.API.Revs) {
			r := seed.API.Revs[k]
			if ref := oracle.ControllerOf(r); selr.Matches(labels.Set(r.Labels)) && (ref == nil || ref.UID == sts.UID) {
				initial = append(initial, k)
			}
		}
		run := c17Upgrade(w, sts, nil)
		label := fmt.Sprintf("built-in set with the default claim retention policy (Retain/Retain), %s", c)
		rep.AddStates(1, 1)
		rep.Count(sha16(label), true, "default retention policy")
		if run.err != nil || w.S.API.BSets["web"] != nil {
			rep.Violation("C17", "uninterrupted-run-fails", fmt.Sprintf("%s: the helper does not complete although no call failed: err=%v", label, run.err), func() interface{} {
				return map[string]interface{}{"kind": "c17", "case": label}
			})
		}
		for _, v := range c17Judge(seed, w.S.Clone(), sts, initial, run) {
			p := strings.SplitN(v, "|", 2)
			rep.Violation("C17", p[0], label+": "+p[1], func() interface{} {
				return map[string]interface{}{"kind": "c17", "case": label}
			})
		}
	}
	// a set that runs no pod at the moment (scaled to zero with its history kept, or a status that lags behind) is
	// representable; it is here for the delete options: orphan propagation whatever the status says
	for _, zero := range []string{"status.replicas=0 (scaled to zero)", "status.replicas=0 (status lags, pods exist)"} {
		for _, adv := range []string{"absent", "equal"} {
			c := c17Case{Selector: "matchLabels", Revs: []string{"match", "match"}, Adv: adv}
			seed, sts := c.build()
			sts.Status.Replicas, sts.Status.ReadyReplicas, sts.Status.CurrentReplicas, sts.Status.UpdatedReplicas = 0, 0, 0, 0
			if strings.Contains(zero, "scaled") {
				r := int32(0)
				sts.Spec.Replicas = &r
				for k := range seed.API.Pods {
					delete(seed.API.Pods, k)
				}
			}
			seed.API.BSets["web"] = sts
			seed.SyncCaches()
			w.Lag = 0
			w.Load(seed)
			selr, _ := metav1.LabelSelectorAsSelector(sts.Spec.Selector)
			var initial []string
			for _, k := range world.SortedKeys(seed.API.Revs) {
				r := seed.API.Revs[k]
				if ref := oracle.ControllerOf(r); selr.Matches(labels.Set(r.Labels)) && (ref == nil || ref.UID == sts.UID) {
					initial = append(initial, k)
				}
			}
			run := c17Upgrade(w, sts, nil)
			label := fmt.Sprintf("built-in set with %s, %s", zero, c)
			rep.AddStates(1, 1)
			rep.Count(sha16(label), true, "zero status")
			for _, v := range c17Judge(seed, w.S.Clone(), sts, initial, run) {
				p := strings.SplitN(v, "|", 2)
				rep.Violation("C17", p[0], label+": "+p[1], func() interface{} {
					return map[string]interface{}{"kind": "c17", "case": label}
				})
			}
		}
	}
	var names []string
	for n := range extras {
		names = append(names, n)
	}
	sort.Strings(names)
	for _, n := range names {
		for _, sel := range []string{"matchLabels", "expressions"} {
			for _, adv := range []string{"absent", "equal"} {
				c := c17Case{Selector: sel, Revs: []string{"match", "match"}, Adv: adv}
				seed, sts := c.build()
				extras[n](sts)
				seed.API.BSets["web"] = sts
				seed.SyncCaches()
				w.Lag = 0
				w.Load(seed)
				selr, _ := metav1.LabelSelectorAsSelector(sts.Spec.Selector)
				var initial []string
				for _, k := range world.SortedKeys(seed.API.Revs) {
					r := seed.API.Revs[k]
					if ref := oracle.ControllerOf(r); selr.Matches(labels.Set(r.Labels)) && (ref == nil || ref.UID == sts.UID) {
						initial = append(initial, k)
					}
				}
				run := c17Upgrade(w, sts, nil)
				post := w.S.Clone()
				label := fmt.Sprintf("built-in set with %s, %s", n, c)
				rep.AddStates(1, 1)
				rep.Count(sha16(label), true, "unrepresentable spec")
				for _, v := range c17Judge(seed, post, sts, initial, run) {
					p := strings.SplitN(v, "|", 2)
					rep.Violation("C17", p[0], label+": "+p[1], func() interface{} {
						return map[string]interface{}{"kind": "c17", "case": label}
					})
				}
				if run.err != nil && normFinal(post) != normFinal(seed) {
					rep.Violation("C17", "declined-after-modifying", label+": the helper returned an error ("+run.err.Error()+") although no call failed, and left changes behind", func() interface{} {
						return map[string]interface{}{"kind": "c17", "case": label}
					})
				}
			}
		}
	}
}

// specWithoutDefaultRetention is the built-in spec as far as it says something an Advanced set could fail to do: the
// claim retention policy Retain/Retain is how the Advanced controller treats claims in any case.
func specWithoutDefaultRetention(sts *appsv1.StatefulSet) appsv1.StatefulSetSpec {
	sp := *sts.Spec.DeepCopy()
	if p := sp.PersistentVolumeClaimRetentionPolicy; p != nil && (p.WhenDeleted == "" || p.WhenDeleted == appsv1.RetainPersistentVolumeClaimRetentionPolicyType) && (p.WhenScaled == "" || p.WhenScaled == appsv1.RetainPersistentVolumeClaimRetentionPolicyType) {
		sp.PersistentVolumeClaimRetentionPolicy = nil
	}
	return sp
}
