module verif

go 1.23.2

require (
	github.com/evanphx/json-patch v4.12.0+incompatible
	github.com/pingcap/advanced-statefulset v0.0.0
	github.com/pingcap/advanced-statefulset/client v0.0.0
	k8s.io/api v0.28.14
	k8s.io/apimachinery v0.28.14
	k8s.io/client-go v0.28.14
	k8s.io/klog/v2 v2.110.1
	sigs.k8s.io/yaml v1.3.0
)

require (
	github.com/beorn7/perks v1.0.1 // indirect
	github.com/blang/semver/v4 v4.0.0 // indirect
	github.com/cespare/xxhash/v2 v2.2.0 // indirect
	github.com/davecgh/go-spew v1.1.1 // indirect
	github.com/distribution/reference v0.6.0 // indirect
	github.com/emicklei/go-restful/v3 v3.9.0 // indirect
	github.com/go-logr/logr v1.3.0 // indirect
	github.com/go-openapi/jsonpointer v0.19.6 // indirect
	github.com/go-openapi/jsonreference v0.20.2 // indirect
	github.com/go-openapi/swag v0.22.3 // indirect
	github.com/gogo/protobuf v1.3.2 // indirect
	github.com/golang/groupcache v0.0.0-20210331224755-41bb18bfe9da // indirect
	github.com/golang/protobuf v1.5.4 // indirect
	github.com/google/gnostic-models v0.6.8 // indirect
	github.com/google/go-cmp v0.5.9 // indirect
	github.com/google/gofuzz v1.2.0 // indirect
	github.com/google/uuid v1.3.0 // indirect
	github.com/josharian/intern v1.0.0 // indirect
	github.com/json-iterator/go v1.1.12 // indirect
	github.com/mailru/easyjson v0.7.7 // indirect
	github.com/matttproud/golang_protobuf_extensions v1.0.4 // indirect
	github.com/modern-go/concurrent v0.0.0-20180306012644-bacd9c7ef1dd // indirect
	github.com/modern-go/reflect2 v1.0.2 // indirect
	github.com/munnerz/goautoneg v0.0.0-20191010083416-a7dc8b61c822 // indirect
	github.com/opencontainers/go-digest v1.0.0 // indirect
	github.com/pkg/errors v0.9.1 // indirect
	github.com/prometheus/client_golang v1.16.0 // indirect
	github.com/prometheus/client_model v0.4.0 // indirect
	github.com/prometheus/common v0.44.0 // indirect
	github.com/prometheus/procfs v0.10.1 // indirect
	github.com/spf13/pflag v1.0.5 // indirect
	golang.org/x/net v0.23.0 // indirect
	golang.org/x/oauth2 v0.8.0 // indirect
	golang.org/x/sys v0.18.0 // indirect
	golang.org/x/term v0.18.0 // indirect
	golang.org/x/text v0.14.0 // indirect
	golang.org/x/time v0.3.0 // indirect
	google.golang.org/protobuf v1.33.0 // indirect
	gopkg.in/inf.v0 v0.9.1 // indirect
	gopkg.in/yaml.v2 v2.4.0 // indirect
	gopkg.in/yaml.v3 v3.0.1 // indirect
	k8s.io/apiserver v0.28.14 // indirect
	k8s.io/component-base v0.28.14 // indirect
	k8s.io/kube-openapi v0.0.0-20230717233707-2695361300d9 // indirect
	k8s.io/utils v0.0.0-20230406110748-d93618cff8a2 // indirect
	sigs.k8s.io/json v0.0.0-20221116044647-bc3834ca7abd // indirect
	sigs.k8s.io/structured-merge-diff/v4 v4.2.3 // indirect
)

replace github.com/pingcap/advanced-statefulset => /repo

replace github.com/pingcap/advanced-statefulset/client => /repo/client
