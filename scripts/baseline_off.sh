#!/bin/bash
# The repository's own suite with the verif guard OFF (no build tag).
set -u
export GOFLAGS=-mod=mod GOPROXY=off GOSUMDB=off GOTOOLCHAIN=local
rc=0
for m in . client; do
  (cd /repo/$m && go test -vet=off -count=1 -timeout 25m ./...) || rc=1
done
exit $rc
