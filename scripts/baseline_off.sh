#!/bin/bash
# The repository's stable baseline (the 109 tests of BASELINE.json: packages pkg/... of the root module and
# the client module) with the verif guard OFF (no build tag). test/e2e needs a live cluster and is not part
# of the baseline.
set -u
export GOFLAGS=-mod=mod GOPROXY=off GOSUMDB=off GOTOOLCHAIN=local
rc=0
(cd /repo && go test -vet=off -count=1 -timeout 25m ./pkg/...) || rc=1
(cd /repo/client && go test -vet=off -count=1 -timeout 25m ./...) || rc=1
exit $rc
