#!/usr/bin/env python3
"""Renders seeded/*/meta.json + results.json as seeded/RESULTS.md."""
import glob, json, os
ROOT = os.path.dirname(os.path.dirname(os.path.abspath(__file__)))
out = ["# Property-breaking changes written by independent sub-agents", "",
       "Each agent was given only the text of one property and a scratch worktree of /repo. A change is kept only after",
       "`scripts/seeded.py verify` confirmed: it applies and builds, the repository's own tests pass with it, its",
       "demonstration test fails with it and passes without it. `scripts/seeded.py check` applies the patch to /repo, runs the",
       "check of the property, and undoes the patch. Seeds whose lines were touched by a later `fix:` commit were rebased by hand",
       "(original kept as patch.orig.diff, noted in meta.json) and verified again.", "",
       "| change | breaks | what it needs to manifest | check | verdict | rules that fired |", "|---|---|---|---|---|---|"]
for d in sorted(glob.glob(os.path.join(ROOT, "seeded", "*", "meta.json"))):
    m = json.load(open(d))
    name = os.path.basename(os.path.dirname(d))
    res = {}
    rp = os.path.join(os.path.dirname(d), "results.json")
    if os.path.exists(rp):
        res = json.load(open(rp))
    needs = (m.get("needs_to_manifest") or "")
    if isinstance(needs, (list, dict)):
        needs = json.dumps(needs)
    needs = needs.replace("\n", " ").replace("|", "/")
    if len(needs) > 260:
        needs = needs[:260] + "..."
    if not res:
        out.append(f"| {name} | {m['property']} | {needs} | - | not run | |")
    for c, r in sorted(res.items()):
        note = r.get("note", "")
        rules = ", ".join(r.get("rules", [])[:4])
        if note:
            rules = (rules + " — " if rules else "") + note.replace("|", "/")
        out.append(f"| {name} | {m['property']} | {needs} | {c} ({r.get('tier','quick')}) | {r['verdict']} | {rules} |")
open(os.path.join(ROOT, "seeded", "RESULTS.md"), "w").write("\n".join(out) + "\n")
print("seeded/RESULTS.md written")
