#!/bin/bash
# Run once after a fresh restore, offline: pre-build everything so that checks
# only pay for incremental compilation.
set -eu
cd "$(dirname "$0")/.."
. scripts/env.sh
mkdir -p bin evidence replays
go build -tags verif -o bin/check ./cmd/check
go1.26 test -tags verif -c -o bin/watchmc.test ./watchmc
go1.26 test -tags verif -race -c -o bin/watchmc.race.test ./watchmc || echo "race build unavailable (C20 runs without the race pass)"
echo "setup ok"
