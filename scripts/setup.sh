#!/bin/bash
# Run once after a fresh restore, offline: pre-build everything so that checks
# only pay for incremental compilation.
set -eu
cd "$(dirname "$0")/.."
. scripts/env.sh
mkdir -p bin evidence replays
go build -tags verif -o bin/check ./cmd/check
echo "setup ok"
