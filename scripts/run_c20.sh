#!/bin/bash
# C20: controlled-scheduler exploration of the hijacked watch (needs go1.26 for testing/synctest),
# preceded by a free-running -race pass of the same bodies (premise guard).
set -u
cd "$(dirname "$0")/.."
. scripts/env.sh
mkdir -p bin evidence replays
rm -f bin/c20.exit
race=skipped
if go1.26 test -tags verif -race -c -o bin/watchmc.race.test ./watchmc 2>bin/build_c20_race.log; then
  if ./bin/watchmc.race.test -test.run 'TestC20Race$' -test.count=1 -test.timeout 10m >bin/c20.race.out 2>&1; then
    race=clean
  elif grep -q "DATA RACE" bin/c20.race.out; then
    race=race
  else
    race=failed
  fi
fi
if ! go1.26 test -tags verif -c -o bin/watchmc.test ./watchmc 2>bin/build_c20.log; then
  echo "BUILD FAILED:" >&2; cat bin/build_c20.log >&2; exit 2
fi
VERIF_C20_BIN=$PWD/bin VERIF_C20_RACE=$race VERIF_ROOT=${VERIF_ROOT:-$PWD} ./bin/watchmc.test -test.run 'TestC20$' -test.count=1 -test.timeout 40m 2>bin/c20.stderr | grep -v -e '^--- ' -e '^FAIL' -e '^PASS' -e '^ok'
if [ -f bin/c20.exit ]; then exit "$(cat bin/c20.exit)"; fi
# the test binary died: if it died inside the watch code this is a finding, not a harness failure
go build -tags verif -o bin/check ./cmd/check 2>/dev/null
./bin/check c20crash bin/c20.stderr
exit $?
