#!/usr/bin/env python3
"""Writes /verif/MANIFEST.json from the table below (single source of truth)."""
import json, os, subprocess

ROOT = os.path.dirname(os.path.dirname(os.path.abspath(__file__)))

TRUST = ("Trusted base: the API-server / kubelet / cache models of internal/world (DESIGN.md Appendix A), "
         "the hand-written reference model and monitors of internal/oracle, Go's runtime. "
         "Holds for the enumerated bounds only (recorded in the evidence file).")

# id -> (cmd, category, technique, text, design_ref, note)
CHECKS = {
 "C20": ("c20", "model_checking", "stateless exploration of all schedules of the real watch relay under a controlled scheduler (testing/synctest), plus a free-running -race pass",
         "Every prefix of every schedule (offer / source close / consumer receive / consumer Stop x2) up to length 9 (11 thorough) for every event sequence up to length 3 over {Added, Modified, Deleted, Bookmark, Error} is executed on the real hijack watch with the relay goroutine run to its next blocking point after each action; order, content, Error relay, closure after stop/source end and goroutine leaks are judged on each.", "4/C20", TRUST),
 "C08": ("c08", "model_checking", "explicit-state search over edit histories of the real reconciler + bounded-exhaustive template generator",
         "All edit histories up to depth 5 (7 thorough) over template/replicas/slot/pause/label edits interleaved with reconcile and kubelet steps, from seeds including an engineered name collision, deduplicated by canonical state; after every successful reconcile the update revision must reproduce the template through the real ApplyRevision, known templates are re-used and renumbered on top, non-template edits never move it, colliding revisions are never overwritten. A reflective PodTemplateSpec generator feeds one set per template.", "4/C08", TRUST),
 "C09": ("c09", "fault_enumeration", "exhaustive fault/crash-point enumeration over every API call of every explored state, with recovery-equivalence on the SCC graph",
         "From every state of the progress closure of the seeds, every API call position of the reconcile x 7 fault kinds (error, lost response, conflict, concurrent delete, already-exists, crash before/after) is injected (pairs in thorough) and the recovery closure explored: failures are reported or absorbed, all safety monitors hold on partial and recovery reconciles, and the bottom SCCs reachable after the fault are quiescent goal states reachable without it.", "4/C09", TRUST),
 "C18": ("c18", "model_checking", "bounded-exhaustive template enumeration against a reference encoder + explicit-state search over GC/reconcile interleavings after the real Upgrade",
         "Byte identity of the revision data with the built-in encoding for every generated template (through the real Match); migrations of built-in sets at any point of a rollout: after the real Upgrade, all interleavings of reconciles, per-object garbage-collector orphaning and kubelet steps; no revision created, no pod deleted that the built-in controller would not delete, every bottom SCC has all revisions adopted and label-synced.", "4/C18", TRUST),
 "C06": ("c06", "model_checking", "bounded-exhaustive snapshot and single-fault enumeration of the real pod control, plus scale-in/out histories",
         "Set names x claim-template lists x per-claim presence (absent / API only / API+cache) x single faults on every claim create and lookup are each reconciled by the real controller; every created pod and claim is checked field by field and the order 'claims before pod' on the call log; scale-in/scale-out histories check that claims keep their identity.", "4/C06", TRUST),
 "C19": ("c19", "model_checking", "bounded-exhaustive input enumeration from a reflective generator against reference oracles",
         "Every single-path mutation (and all pairs among set-level fields) of a built-in StatefulSet, all slot sets over int32 extremes and a family of annotation maps are pushed through the conversion helpers, the hijack client on a fake, the annotation codecs and the defaulter; round trips must be lossless on the modelled fields (computed by reflection), defaulting idempotent.", "4/C19", TRUST),
 "C02": ("c02", "model_checking", "deviation-bounded explicit-state search of the real reconciler + bottom-SCC (fair-convergence) analysis",
         "From thousands of mostly non-initial seed states, all interleavings of reconcile / kubelet progress are explored (deduplicated by canonical state), plus every single deviation (user edit, pod regression, failed API write) from every state; every bottom SCC of the progress graph must be one quiescent goal state, which is exactly convergence under the property's fairness premise.", "4/C02", TRUST),
 "C16": ("c16", "model_checking", "exhaustive event-shape enumeration on the real handlers and worker against a reference function",
         "Every add/update/delete/tombstone event over all owner x label x terminating shapes (all old x new pairs) is fed to the handlers the real constructor registered; enqueued keys must lie between the required and the allowed set of a reference function; every success/failure sequence of <=4 worker steps is checked for requeue discipline.", "4/C16", TRUST),
 "C17": ("c17", "fault_enumeration", "exhaustive fault/crash-point enumeration of the real upgrade helper to depth 2-3 with recovery equivalence",
         "Every API call position of helper.Upgrade x every applicable fault kind (error, lost response, conflict, concurrent delete, already-exists, crash before/after), nested to depth 2 (3 thorough) with re-runs, on all selector shapes x revision populations x pre-existing Advanced object variants; safety at the moment of deletion, no pod/claim writes, eventual success and final-state equality with the uninterrupted run.", "4/C17", TRUST),
 "C10": ("c10", "model_checking", "exhaustive snapshot enumeration over ownership grids with call-log monitors and a differential oracle",
         "Pods and revisions with every combination of owner, label match, name shape and terminating flag, a second set with the same selector, and a cached set that is stale w.r.t. the API (deleting, other UID, absent) are each reconciled once by the real controller; every write is judged for ownership, adoption needs a prior uncached confirmation, and the writes must equal those of the same snapshot without foreign-owned objects.", "4/C10", TRUST),
 "C11": ("c11", "model_checking", "exhaustive snapshot enumeration with the pause/deletion flag raised",
         "The ownership grid and the C03 population grids are re-run with the set deleting (cache+API, API only) or paused: no pod/claim write, no adoption or release, no write on revisions the set does not control; nothing at all while paused. (The resume clause is decided by the search driver once built.)", "4/C11", TRUST),
 "C13": ("c13", "model_checking", "exhaustive snapshot enumeration over revision populations",
         "Full product of three revision slots (own / orphan / foreign x selector / marker / both labels) x limits {0,1,10} x pod-label pinning x equal revision numbers: deletes only own unused revisions, each once, only beyond the limit, oldest first; at most limit unused remain after success.", "4/C13", TRUST),
 "C01": ("c01", "model_checking", "bounded-exhaustive input enumeration against a reference model, helpers and real controller",
         "Every (replicas, delete-slots annotation) pair of a bounded input space is fed to every client helper and to the real controller on an empty cluster (Parallel: one reconcile; OrderedReady: reconcile/kubelet loop to quiescence); results must equal the reference model 'first r non-negative integers not listed'.", "4/C01", TRUST),
 "C15": ("c15", "model_checking", "bounded-exhaustive enumeration of CRD-admitted objects, each driven through a journey of real reconciles",
         "Every manifest of a bounded product of field variants that a mini interpreter of manifests/crd.v1.yaml admits is reconciled by the real controller along a journey (create, steady, rollout, failed pod, scale-in, deletion) and against hand-made populations; no reconcile may panic.", "4/C15", TRUST),
 "C03": ("c03", "model_checking", "exhaustive snapshot enumeration of the real reconciler (explicit-state, one transition per state) with call-log monitors",
         "Every cluster snapshot of a bounded shape (spec grid x template history x pod population) is reconciled once by the real controller; every pod delete it issues is classified against the snapshot it saw. Exhaustive within the grid, never sampled.", "4/C03", TRUST),
 "C04": ("c04", "model_checking", "exhaustive snapshot enumeration of the real reconciler with call-log monitors",
         "Same enumeration as C03; every pod create must target a vacant, desired, non-slot ordinal of a non-deleting set.", "4/C04", TRUST),
 "C05": ("c05", "model_checking", "exhaustive snapshot enumeration of the real reconciler with call-log monitors",
         "Snapshot enumeration under the ordered policy (incl. empty/unknown policy strings): at most one ordinal touched, predecessors healthy, scale-in from the top, update only when nothing is left to scale in.", "4/C05", TRUST),
 "C07": ("c07", "model_checking", "exhaustive snapshot enumeration of the real reconciler with call-log monitors",
         "Snapshot enumeration over partitions (0, inside, at and beyond the range), slot sets, both policies and 1-3 revisions in flight: update deletes respect partition and highest-first order, new pods carry the revision their ordinal calls for, OnDelete never restarts.", "4/C07", TRUST),
 "C12": ("c12", "model_checking", "exhaustive snapshot enumeration of the real reconciler with status-write monitors",
         "Every status write of every enumerated snapshot is checked for counter ranges, observedGeneration and the rollout-completion rule.", "4/C12", TRUST),
 "C14": ("c14", "model_checking", "exhaustive snapshot enumeration of the real reconciler with call-log monitors",
         "Snapshot enumeration under Parallel: all vacancies created and all live condemned pods deleted in the same error-free reconcile; at most one update delete.", "4/C14", TRUST),
}

PENDING = {}

def main():
    props = [json.loads(l)["id"] for l in open(os.path.join(ROOT, "properties.jsonl"))]
    commits = subprocess.run(["git", "-C", "/repo", "log", "--format=%h %s"], capture_output=True, text=True).stdout.splitlines()
    hooks = [c.split()[0] for c in commits if c.split(" ", 1)[1].startswith("verif hooks")]
    checks = []
    for pid in props:
        if pid not in CHECKS:
            continue
        cmd, cat, tech, text, ref, note = CHECKS[pid]
        checks.append({
            "property_id": pid,
            "quick_cmd": f"VERIF_TIER=quick scripts/run.sh {cmd}" if cmd != "c20" else "VERIF_TIER=quick scripts/run_c20.sh",
            "thorough_cmd": f"VERIF_TIER=thorough scripts/run.sh {cmd}" if cmd != "c20" else "VERIF_TIER=thorough scripts/run_c20.sh",
            "evidence_file": f"/verif/evidence/{pid}.json",
            "replay_cmd_template": "scripts/run.sh replay {path}",
            "engine": "check" if cmd != "c20" else "watchmc",
            "level_claimed": {"category": cat, "text": text, "design_ref": "DESIGN.md section " + ref},
            "level_note": note,
            "technique": tech,
        })
    na = [{"property_id": p, "reason": PENDING.get(p, "not claimed yet: the check for this property is still under construction (see DESIGN.md section 8)")}
          for p in props if p not in CHECKS]
    m = {
        "version": 1,
        "setup_cmd": "scripts/setup.sh",
        "hooks": {
            "guard": "verif",
            "enable": "go build -tags verif (scripts/run.sh builds /verif/cmd/check against /repo through go.mod replace directives)",
            "baseline_off_cmd": "scripts/baseline_off.sh",
            "source_commits": hooks,
            "add_only": True,
        },
        "engines": [
            {"name": "check", "path": "/verif/cmd/check", "serves_properties": sorted(p for p in CHECKS if p != "C20"),
             "kind_free_text": "hand-written explicit-state explorer around the real controller: closed world (API model, caches, environment), snapshot enumerator, deviation-bounded search with SCC analysis, fault/crash enumerator"},
            {"name": "watchmc", "path": "/verif/watchmc", "serves_properties": ["C20"],
             "kind_free_text": "stateless schedule exploration of the hijacked watch under a controlled scheduler built on testing/synctest (go1.26), run as a test binary"},
        ],
        "checks": checks,
        "not_applicable": na,
        "notes": "All checks run the real Go code of /repo (build tag verif) under exhaustive bounded enumeration; see DESIGN.md. known_findings.json lists known/fixed findings.",
    }
    json.dump(m, open(os.path.join(ROOT, "MANIFEST.json"), "w"), indent=1)
    print("MANIFEST.json written:", len(checks), "checks,", len(na), "not claimed")

main()
