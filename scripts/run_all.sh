#!/bin/bash
# Runs every registered quick (or VERIF_TIER) check in turn; prints one line per check.
cd "$(dirname "$0")/.."
rc=0
for c in c01 c02 c03 c04 c05 c06 c07 c08 c09 c10 c11 c12 c13 c14 c15 c16 c17 c18 c19; do
  s=$(date +%s); out=$(scripts/run.sh $c 2>&1); code=$?; e=$(date +%s)
  echo "$c exit=$code $((e-s))s :: $(echo "$out" | tail -1 | cut -c1-200)"
  [ $code -ne 0 ] && { rc=1; echo "$out" | grep -A1 VIOLATION | head -6; }
done
s=$(date +%s); out=$(scripts/run_c20.sh 2>&1); code=$?; e=$(date +%s)
echo "c20 exit=$code $((e-s))s :: $(echo "$out" | tail -1 | cut -c1-200)"
[ $code -ne 0 ] && rc=1
exit $rc
