#!/usr/bin/env python3
"""Apply a property-breaking change through `go build -overlay` (never touching
/repo), optionally run the repository's own tests with it, run the given
checks, and report whether each check raised a VIOLATION.

usage: scripts/mutant.py [--tests] [--checks c03,c05] mutants/<name>.json ...
Mutant file: {"property": "C05", "desc": "...", "checks": ["c05"],
              "edits": [{"file": "pkg/...go", "old": "...", "new": "..."}]}
Exit 0 always; prints one line per (mutant, check): CAUGHT / MISSED.
"""
import json, os, shutil, subprocess, sys, tempfile, time

ROOT = os.path.dirname(os.path.dirname(os.path.abspath(__file__)))
ENV = dict(os.environ, GOFLAGS="-mod=mod", GOPROXY="off", GOSUMDB="off", GOTOOLCHAIN="local")


def run(cmd, cwd=None, env=None, timeout=1800):
    p = subprocess.run(cmd, cwd=cwd, env=env or ENV, capture_output=True, text=True, timeout=timeout)
    return p.returncode, p.stdout + p.stderr


def main():
    args = sys.argv[1:]
    tests = False
    checks_override = None
    files = []
    i = 0
    while i < len(args):
        if args[i] == "--tests":
            tests = True
        elif args[i] == "--resume":
            pass
        elif args[i] == "--checks":
            i += 1
            checks_override = args[i].split(",")
        else:
            files.append(args[i])
        i += 1
    done = set()
    rp = os.path.join(ROOT, "mutants", "results.jsonl")
    if os.path.exists(rp):
        for l in open(rp):
            done.add(json.loads(l)["mutant"])
    for f in files:
        m = json.load(open(f))
        name = os.path.splitext(os.path.basename(f))[0]
        if "--resume" in args and name in done:
            continue
        tmp = tempfile.mkdtemp(prefix="mut-" + name + "-")
        try:
            overlay = {"Replace": {}}
            ok = True
            for n, e in enumerate(m["edits"]):
                src = os.path.join("/repo", e["file"])
                dst_key = src
                if dst_key in overlay["Replace"]:
                    text = open(overlay["Replace"][dst_key]).read()
                else:
                    text = open(src).read()
                if text.count(e["old"]) != 1:
                    print(f"{name}: edit {n} does not apply uniquely ({text.count(e['old'])} matches) -- SKIPPED")
                    ok = False
                    break
                text = text.replace(e["old"], e["new"])
                dst = os.path.join(tmp, f"{n}_" + os.path.basename(e["file"]))
                open(dst, "w").write(text)
                overlay["Replace"][dst_key] = dst
            if not ok:
                continue
            ov = os.path.join(tmp, "overlay.json")
            json.dump(overlay, open(ov, "w"))
            line = f"{name} [{m['property']}] "
            if tests:
                rc1, out1 = run(["go", "test", "-overlay", ov, "-vet=off", "-count=1", "-timeout", "4m", "./pkg/..."], cwd="/repo")
                rc2, out2 = run(["go", "test", "-overlay", ov, "-vet=off", "-count=1", "-timeout", "4m", "./..."], cwd="/repo/client")
                line += "repo-tests=" + ("PASS" if rc1 == 0 and rc2 == 0 else "FAIL") + " "
                if rc1 or rc2:
                    sys.stdout.write((out1 + out2)[-1500:] + "\n")
            binp = os.path.join(tmp, "check")
            rc, out = run(["go", "build", "-tags", "verif", "-overlay", ov, "-o", binp, "./cmd/check"], cwd=ROOT)
            if rc != 0:
                print(line + "BUILD-FAILED\n" + out[-1500:])
                continue
            outroot = os.path.join(tmp, "out")
            os.makedirs(outroot)
            shutil.copy(os.path.join(ROOT, "known_findings.json"), outroot)
            env = dict(ENV, VERIF_ROOT=outroot, VERIF_TIER=os.environ.get("VERIF_TIER", "quick"))
            for c in (checks_override or m.get("checks", [])):
                t0 = time.time()
                if c == "c20":
                    tb = os.path.join(tmp, "watchmc.test")
                    rc, out = run(["go1.26", "test", "-tags", "verif", "-overlay", ov, "-c", "-o", tb, "./watchmc"], cwd=ROOT)
                    if rc == 0:
                        os.makedirs(os.path.join(outroot, "bin"), exist_ok=True)
                        rc, out = run([tb, "-test.run", "TestC20$", "-test.count=1", "-test.timeout", "30m"], cwd=os.path.join(ROOT, "watchmc"), env=dict(env, VERIF_C20_RACE="skipped"))
                        rc = 1 if "VIOLATION property=" in out else (0 if rc == 0 else rc)
                else:
                    rc, out = run([binp, c], cwd=ROOT, env=env)
                viol = [l for l in out.splitlines() if l.startswith("VIOLATION")]
                rules = sorted(set(l.strip().split(" ")[0] for l in out.splitlines() if l.strip().startswith("rule=")))
                verdict = "CAUGHT" if rc == 1 and viol else ("MISSED" if rc == 0 else f"ERROR(rc={rc})")
                print(f"{line}{c}: {verdict} {' '.join(rules[:4])} ({time.time()-t0:.0f}s)", flush=True)
                with open(os.path.join(ROOT, "mutants", "results.jsonl"), "a") as rf:
                    rf.write(json.dumps({"mutant": name, "property": m["property"], "desc": m["desc"], "check": c, "verdict": verdict,
                                         "rules": [r[5:] for r in rules[:6]], "repo_tests": ("PASS" if "repo-tests=PASS" in line else ("FAIL" if "repo-tests=FAIL" in line else "not run")),
                                         "tier": env["VERIF_TIER"], "seconds": round(time.time() - t0)}) + "\n")
                if verdict.startswith("ERROR"):
                    print(out[-1500:])
        finally:
            shutil.rmtree(tmp, ignore_errors=True)


main()
