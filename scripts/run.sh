#!/bin/bash
# usage: scripts/run.sh <check> [args]   (cwd=/verif). Rebuilds the checker from
# /repo's current working tree (hooks on: -tags verif) and runs one check.
set -u
cd "$(dirname "$0")/.."
. scripts/env.sh
mkdir -p bin evidence replays
if ! go build -tags verif -o bin/check ./cmd/check 2>bin/build.log; then
  echo "BUILD FAILED (harness or /repo does not compile with -tags verif):" >&2
  cat bin/build.log >&2
  exit 2
fi
exec ./bin/check "$@"
