#!/usr/bin/env python3
"""Prints a markdown table of what the last run of each check covered (from evidence/*.json)."""
import json, glob, os
ROOT = os.path.dirname(os.path.dirname(os.path.abspath(__file__)))
print("| property | tier | level | evaluations | distinct non-trivial | states | transitions | exhaustive | wall s |")
print("|---|---|---|---|---|---|---|---|---|")
for f in sorted(glob.glob(os.path.join(ROOT, "evidence", "C*.json"))):
    e = json.load(open(f)); c = e["coverage"]
    print(f"| {e['property_id']} | {e['tier']} | {e['level']} | {c.get('evaluations')} | {c.get('distinct_nontrivial')} | {c.get('states','')} | {c.get('transitions','')} | {c.get('exhaustive')} | {e['wall_s']:.0f} |")
