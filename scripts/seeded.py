#!/usr/bin/env python3
"""Seeded property-breaking changes (written by independent sub-agents).

  seeded.py verify <name> <srcdir> [--prop C03]
      srcdir holds patch.diff, a demonstration *_test.go and meta.json. In a fresh scratch worktree of
      /repo (removed afterwards): the patch applies, the repository builds, its own tests pass with the
      patch, the demonstration fails with the patch and passes without it. On success the artefacts are
      stored under /verif/seeded/<name>/ with meta.json (agent's meta + what was run here).
  seeded.py check <name> [check ...]
      applies /verif/seeded/<name>/patch.diff to /repo itself, runs the given checks (default: the check
      of the property it breaks), undoes the patch (git checkout -- .) and records the verdicts in
      /verif/seeded/<name>/results.json.
"""
import glob, json, os, shutil, subprocess, sys, time

ROOT = os.path.dirname(os.path.dirname(os.path.abspath(__file__)))
ENV = dict(os.environ, GOFLAGS="-mod=mod", GOPROXY="off", GOSUMDB="off", GOTOOLCHAIN="local")


def sh(cmd, cwd=None, timeout=3600, env=None):
    p = subprocess.run(cmd, cwd=cwd, shell=isinstance(cmd, str), env=env or ENV, capture_output=True, text=True, timeout=timeout)
    return p.returncode, (p.stdout + p.stderr)


def verify(name, src, prop=None):
    patch = os.path.join(src, "patch.diff")
    tests = [f for f in glob.glob(os.path.join(src, "*_test.go"))]
    meta_in = {}
    if os.path.exists(os.path.join(src, "meta.json")):
        try:
            meta_in = json.load(open(os.path.join(src, "meta.json")))
        except Exception as e:
            meta_in = {"unparsed_meta": str(e)}
    if not os.path.exists(patch) or not tests:
        print("missing patch.diff or demonstration test in", src)
        return 1
    wt = f"/tmp/sv-{name}"
    sh(["git", "-C", "/repo", "worktree", "remove", "--force", wt])
    rc, out = sh(["git", "-C", "/repo", "worktree", "add", "--detach", wt, "HEAD"])
    if rc:
        print(out)
        return 1
    log = {}
    try:
        # where do the demo tests go? by package clause
        touched = [l[6:].strip() for l in open(patch) if l.startswith("+++ b/")]
        cands = {"statefulset": "pkg/controller/statefulset", "helper": "client/apis/apps/v1/helper", "v1": "client/apis/apps/v1", "k8s": "pkg/third_party/k8s"}
        placed, cmds, names = [], [], []
        for t in tests:
            pkgline = [l for l in open(t) if l.startswith("package ")][0].split()[1]
            ddir = cands.get(pkgline.replace("_test", ""), os.path.dirname(touched[0]))
            shutil.copy(t, os.path.join(wt, ddir, os.path.basename(t)))
            placed.append(os.path.join(wt, ddir, os.path.basename(t)))
            tn = [l.split("(")[0].split()[1] for l in open(t) if l.startswith("func Test")]
            names += tn
            mod = "client" if ddir.startswith("client/") else "."
            rel = "./" + (ddir[len("client/"):] if mod == "client" else ddir)
            cmds.append(f"(cd {wt}/{mod} && go test -vet=off -count=1 {rel} -run '^(" + "|".join(tn) + ")$')")
            demo_dir = ddir
        # every demonstration file must pass without the patch and fail with it
        run_demo = " && ".join(cmds)
        run_demo_any_fail = "; ".join(c + " ; echo RC=$?" for c in cmds)
        rc, out = sh(run_demo)
        log["demo_without_patch"] = {"cmd": run_demo, "rc": rc, "tail": out[-600:]}
        if rc != 0:
            print("demonstration does not pass on the unchanged tree:\n", out[-1500:])
            return 1
        rc, out = sh(["git", "-C", wt, "apply", patch])
        if rc:
            print("patch does not apply:", out)
            return 1
        rc, out = sh(f"cd {wt} && go build ./... && (cd client && go build ./...)")
        log["build_with_patch"] = {"rc": rc}
        if rc:
            print("does not build with the patch:", out[-1500:])
            return 1
        rc, out = sh(run_demo_any_fail)
        fails = out.count("RC=1")
        log["demo_with_patch"] = {"cmd": run_demo_any_fail, "failing_demo_packages": fails, "tail": out[-1200:]}
        if fails == 0:
            print("demonstration passes even with the patch")
            return 1
        # the repository's own tests with the patch (demo removed)
        for f in placed:
            os.remove(f)
        cmd = f"cd {wt} && go test -vet=off -count=1 ./pkg/... && (cd client && go test -vet=off -count=1 ./...)"
        rc, out = sh(cmd)
        log["repo_tests_with_patch"] = {"cmd": cmd, "rc": rc, "tail": out[-600:]}
        if rc != 0:
            print("the repository's own tests fail with the patch:\n", out[-1500:])
            return 1
    finally:
        sh(["git", "-C", "/repo", "worktree", "remove", "--force", wt])
        shutil.rmtree(wt, ignore_errors=True)
    dst = os.path.join(ROOT, "seeded", name)
    os.makedirs(dst, exist_ok=True)
    shutil.copy(patch, os.path.join(dst, "patch.diff"))
    for t in tests:
        shutil.copy(t, os.path.join(dst, os.path.basename(t)))
    meta = {
        "property": prop or meta_in.get("property"),
        "breaks": meta_in.get("summary"),
        "needs_to_manifest": meta_in.get("needs_to_manifest"),
        "demonstration": {"files": [os.path.basename(t) for t in tests], "package_dir": demo_dir, "tests": names},
        "author": "independent sub-agent given only the property text and a scratch worktree",
        "agent_meta": meta_in,
        "verified_here": log,
        "verified_at": time.strftime("%Y-%m-%dT%H:%M:%SZ", time.gmtime()),
        "base_commit": subprocess.run(["git", "-C", "/repo", "rev-parse", "--short", "HEAD"], capture_output=True, text=True).stdout.strip(),
    }
    json.dump(meta, open(os.path.join(dst, "meta.json"), "w"), indent=1)
    print(f"verified: {name} -> {dst}")
    return 0


def check(name, checks):
    d = os.path.join(ROOT, "seeded", name)
    meta = json.load(open(os.path.join(d, "meta.json")))
    if not checks:
        checks = [meta["property"].lower()]
    rc, out = sh(["git", "-C", "/repo", "status", "--porcelain", "--untracked-files=no"])
    if out.strip():
        print("/repo is not clean; refusing to apply a seeded patch:", out)
        return 1
    results = {}
    if os.path.exists(os.path.join(d, "results.json")):
        results = json.load(open(os.path.join(d, "results.json")))
    rc, out = sh(["git", "-C", "/repo", "apply", os.path.join(d, "patch.diff")])
    if rc:
        print("patch does not apply to /repo:", out)
        return 1
    try:
        outroot = f"/tmp/seedout-{name}"
        shutil.rmtree(outroot, ignore_errors=True)
        os.makedirs(outroot)
        shutil.copy(os.path.join(ROOT, "known_findings.json"), outroot)
        env = dict(ENV, VERIF_ROOT=outroot, VERIF_TIER=os.environ.get("VERIF_TIER", "quick"))
        for c in checks:
            t0 = time.time()
            cmd = ["scripts/run_c20.sh"] if c == "c20" else ["scripts/run.sh", c]
            rc, out = sh(cmd, cwd=ROOT, env=env)
            rules = sorted(set(l.strip().split(" ")[0][5:] for l in out.splitlines() if l.strip().startswith("rule=")))
            verdict = "CAUGHT" if rc == 1 and "VIOLATION property=" in out else ("MISSED" if rc == 0 else f"ERROR rc={rc}")
            results[c] = {"verdict": verdict, "rules": rules[:6], "seconds": round(time.time() - t0), "tier": env["VERIF_TIER"]}
            print(f"{name} {c}: {verdict} {rules[:4]} ({time.time()-t0:.0f}s)")
            if verdict.startswith("ERROR"):
                print(out[-1500:])
        shutil.rmtree(outroot, ignore_errors=True)
    finally:
        sh(["git", "-C", "/repo", "checkout", "--", "."])
        sh(["bash", "-c", ". scripts/env.sh && go build -tags verif -o bin/check ./cmd/check"], cwd=ROOT)
    json.dump(results, open(os.path.join(d, "results.json"), "w"), indent=1)
    return 0


def precheck(name, checks):
    """Like check, but through `go build -overlay` (leaves /repo untouched): a preliminary verdict that can run
    while something else is using /repo. The verdict of record is the one of `check`."""
    d = os.path.join(ROOT, "seeded", name)
    meta = json.load(open(os.path.join(d, "meta.json")))
    if not checks:
        checks = [meta["property"].lower()]
    wt = f"/tmp/sp-{name}"
    sh(["git", "-C", "/repo", "worktree", "remove", "--force", wt])
    rc, out = sh(["git", "-C", "/repo", "worktree", "add", "--detach", wt, "HEAD"])
    try:
        rc, out = sh(["git", "-C", wt, "apply", os.path.join(d, "patch.diff")])
        if rc:
            print("patch does not apply:", out)
            return 1
        touched = [l[6:].strip() for l in open(os.path.join(d, "patch.diff")) if l.startswith("+++ b/")]
        ov = os.path.join(wt, "overlay.json")
        json.dump({"Replace": {os.path.join("/repo", t): os.path.join(wt, t) for t in touched}}, open(ov, "w"))
        outroot = f"/tmp/seedout-{name}"
        shutil.rmtree(outroot, ignore_errors=True)
        os.makedirs(os.path.join(outroot, "bin"))
        shutil.copy(os.path.join(ROOT, "known_findings.json"), outroot)
        env = dict(ENV, VERIF_ROOT=outroot, VERIF_TIER=os.environ.get("VERIF_TIER", "quick"), VERIF_C20_BIN=os.path.join(outroot, "bin"), VERIF_C20_RACE="skipped")
        binp = os.path.join(wt, "check.bin")
        rc, out = sh(["go", "build", "-tags", "verif", "-overlay", ov, "-o", binp, "./cmd/check"], cwd=ROOT)
        if rc:
            print("overlay build failed:", out[-1500:])
            return 1
        for c in checks:
            t0 = time.time()
            if c == "c20":
                tb = os.path.join(wt, "watchmc.test")
                rc, out = sh(["go1.26", "test", "-tags", "verif", "-overlay", ov, "-c", "-o", tb, "./watchmc"], cwd=ROOT)
                if rc == 0:
                    rc, out = sh([tb, "-test.run", "TestC20$", "-test.count=1", "-test.timeout", "30m"], cwd=os.path.join(ROOT, "watchmc"), env=env)
            else:
                rc, out = sh([binp, c], cwd=ROOT, env=env)
            rules = sorted(set(l.strip().split(" ")[0][5:] for l in out.splitlines() if l.strip().startswith("rule=")))
            verdict = "CAUGHT" if "VIOLATION property=" in out else ("MISSED" if rc == 0 else f"ERROR rc={rc}")
            print(f"[precheck/overlay] {name} {c}: {verdict} {rules[:4]} ({time.time()-t0:.0f}s)")
            if verdict.startswith("ERROR"):
                print(out[-1200:])
        shutil.rmtree(outroot, ignore_errors=True)
    finally:
        sh(["git", "-C", "/repo", "worktree", "remove", "--force", wt])
        shutil.rmtree(wt, ignore_errors=True)
    return 0


if __name__ == "__main__":
    a = sys.argv[1:]
    if len(a) >= 2 and a[0] == "precheck":
        sys.exit(precheck(a[1], a[2:]))
    if len(a) >= 3 and a[0] == "verify":
        prop = a[a.index("--prop") + 1] if "--prop" in a else None
        sys.exit(verify(a[1], a[2], prop))
    if len(a) >= 2 and a[0] == "check":
        sys.exit(check(a[1], a[2:]))
    print(__doc__)
    sys.exit(2)
