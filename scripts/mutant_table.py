#!/usr/bin/env python3
"""Renders mutants/results.jsonl (latest verdict per mutant x check) as mutants/RESULTS.md."""
import json, os
ROOT = os.path.dirname(os.path.dirname(os.path.abspath(__file__)))
rows = {}
for l in open(os.path.join(ROOT, "mutants", "results.jsonl")):
    r = json.loads(l)
    rows[(r["mutant"], r["check"])] = r
out = ["# Own property-breaking changes (applied through `go build -overlay`, /repo untouched)", "",
       "`repo tests` = the repository's own suite with the change applied (PASS means the suite does not notice it).", "",
       "| mutant | breaks | what it does | repo tests | check | verdict | rules that fired |", "|---|---|---|---|---|---|---|"]
for (m, c), r in sorted(rows.items()):
    out.append(f"| {m} | {r['property']} | {r['desc']} | {r['repo_tests']} | {c} ({r['tier']}) | {r['verdict']} | {', '.join(r['rules'][:4])} |")
open(os.path.join(ROOT, "mutants", "RESULTS.md"), "w").write("\n".join(out) + "\n")
print(len(rows), "rows")
